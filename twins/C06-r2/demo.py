#!/usr/bin/env python
"""Randomised, seeded comparison of the distance-matrix routines (property C06).

Calls the public API (dtw.distance_matrix / distance_matrix_fast,
dtw_ndim.distance_matrix(_fast), the length / index helpers, the condensed-index
helper and the exported C length function) on a broad set of inputs, blocks and
settings and prints one line `DIGEST <sha256>` over the repr of all results.
Floating point results are recorded bit-for-bit (raw bytes in hex).
"""
import array
import ctypes
import hashlib
import os
import random
import sys
import tempfile

import numpy as np

from dtaidistance import dtw, dtw_ndim, dtw_cc

H = hashlib.sha256()
NB = [0]


def enc(x):
    """Bit-exact, deterministic text encoding of a result."""
    if isinstance(x, np.ndarray):
        return "nd(%s,%s,%s)" % (x.dtype.str, x.shape, np.ascontiguousarray(x).tobytes().hex())
    if isinstance(x, array.array):
        return "arr(%s,%d,%s)" % (x.typecode, len(x), x.tobytes().hex())
    if isinstance(x, (list, tuple)):
        return type(x).__name__ + "[" + ",".join(enc(e) for e in x) + "]"
    if isinstance(x, float):
        return "f(" + float(x).hex() + ")"
    if isinstance(x, (np.floating,)):
        return "npf(" + float(x).hex() + ")"
    if isinstance(x, (np.integer,)):
        return "npi(%d)" % int(x)
    return repr(x)


def rec(tag, fn, *args, **kwargs):
    try:
        res = enc(fn(*args, **kwargs))
    except BaseException as exc:  # noqa
        res = "EXC(%s:%s)" % (type(exc).__name__, exc)
    H.update(("%s => %s\n" % (tag, res)).encode())
    NB[0] += 1
    return res


def all_blocks(n):
    """Every block ((rb,re),(cb,ce)) with 0<=rb<re<=n, 0<=cb<ce<=n."""
    rng = [(b, e) for b in range(0, n) for e in range(b + 1, n + 1)]
    for rr in rng:
        for cc in rng:
            yield rr, cc


def block_variants(rr, cc):
    yield (rr, cc)
    yield (rr, cc, True)
    yield (rr, cc, False)


# ---------------------------------------------------------------- 1. lengths / index lists
class CBlock(ctypes.Structure):
    _fields_ = [("rb", ctypes.c_ssize_t), ("re", ctypes.c_ssize_t),
                ("cb", ctypes.c_ssize_t), ("ce", ctypes.c_ssize_t),
                ("triu", ctypes.c_bool)]


lib = ctypes.CDLL(dtw_cc.__file__)
lib.dtw_distances_length.restype = ctypes.c_ssize_t
lib.dtw_distances_length.argtypes = [ctypes.POINTER(CBlock), ctypes.c_ssize_t, ctypes.c_ssize_t]


def c_length(rb, re, cb, ce, triu, nr, nc):
    b = CBlock(rb, re, cb, ce, triu)
    return lib.dtw_distances_length(ctypes.byref(b), nr, nc)


def part_lengths():
    for n in range(1, 8):
        rec("pylen none %d" % n, dtw._distance_matrix_length, None, n)
        rec("pyidx none %d" % n, dtw._distance_matrix_idxs, None, n)
        rec("pyidx zero %d" % n, dtw._distance_matrix_idxs, 0, n)
        rec("pycb none %d" % n, dtw._complete_block, None, n)
        rec("clen none %d" % n, dtw_cc.distance_matrix_length, dtw_cc.DTWBlock(0, 0, 0, 0), n)
        rec("clen none notriu %d" % n, dtw_cc.distance_matrix_length, dtw_cc.DTWBlock(0, 0, 0, 0, False), n)
        for rr, cc in all_blocks(n):
            for blk in block_variants(rr, cc):
                tag = "%d %r" % (n, blk)
                rec("pylen " + tag, dtw._distance_matrix_length, blk, n)
                rec("pyidx " + tag, dtw._distance_matrix_idxs, blk, n)
                rec("pycb " + tag, dtw._complete_block, blk, n)
            for triu in (True, False):
                rec("clen %d %r %r %r" % (n, rr, cc, triu), dtw_cc.distance_matrix_length,
                    dtw_cc.DTWBlock(rr[0], rr[1], cc[0], cc[1], triu), n)
    # exported C function, also with different numbers of row / column series
    # (only valid blocks: invalid ones make the library print to stdout)
    for nr in range(1, 7):
        for nc in range(1, 7):
            for triu in (True, False):
                rec("cexp none %d %d %r" % (nr, nc, triu), c_length, 0, 0, 0, 0, triu, nr, nc)
                for rb in range(0, nr):
                    for re in range(rb + 1, nr + 1):
                        for cb in range(0, nc):
                            for ce in range(cb + 1, nc + 1):
                                rec("cexp %r" % ((rb, re, cb, ce, triu, nr, nc),),
                                    c_length, rb, re, cb, ce, triu, nr, nc)
    # very large blocks (overflow checks); chosen so that nothing is printed
    big = 2 ** 62
    for args in [(0, 3, 0, big, True, big, big), (0, 3, 5, big, True, big, big),
                 (1, 2, 0, big, False, big, big), (0, 2, 0, big, False, big, big),
                 (0, 1, 0, 2 ** 63 - 1, False, 2 ** 63 - 1, 2 ** 63 - 1),
                 (big - 2, big, 3, big, True, big, big), (5, 9, 2, 7, True, big, big)]:
        rec("cexp big %r" % (args,), c_length, *args)
    # invalid blocks and overflowing rectangles: the library prints a message and returns 0
    for args in [(2, 2, 0, 3, True, 5, 5), (3, 1, 0, 3, True, 5, 5), (0, 3, 2, 2, False, 5, 5),
                 (0, 3, 4, 1, True, 5, 5), (5, 6, 0, 3, True, 5, 5), (0, 6, 0, 3, False, 5, 5),
                 (0, 3, 5, 6, True, 5, 5), (0, 3, 0, 6, True, 5, 5), (0, 3, 4, 6, False, 5, 4),
                 (0, big, 0, big, False, big, big), (0, 4, 0, big, False, big, big),
                 (0, big, 0, big, True, big, big)]:
        rec("cexp invalid %r" % (args,), c_length, *args)
    # python length with blocks that exceed the number of series / odd blocks
    for blk in [((0, 9), (0, 9)), ((2, 9), (1, 12)), ((0, 9), (0, 9), False), ((3, 1), (0, 4)),
                ((0, 4), (3, 1)), ((3, 1), (4, 0), False), ((0, 4), (0, 4), None), ((0, 4), (0, 4), 0),
                ((0, 4), (0, 4), 1), [[0, 4], [1, 3]], [[0, 4], [1, 3], False], 0, (), ((0, 1),)]:
        rec("pylen odd %r" % (blk,), dtw._distance_matrix_length, blk, 5)
        rec("pyidx odd %r" % (blk,), dtw._distance_matrix_idxs, blk, 5)
    for n in range(2, 9):
        for a in range(n):
            for b in range(n):
                rec("cidx %d %d %d" % (a, b, n), dtw.distance_array_index, a, b, n)


# ---------------------------------------------------------------- 2. distance matrices
SETTINGS = [
    {},
    {"window": 2},
    {"window": 4, "penalty": 0.3},
    {"max_dist": 2.5},
    {"max_dist": 3.0, "use_pruning": True},
    {"use_pruning": True},
    {"max_step": 1.2},
    {"max_length_diff": 2},
    {"psi": 1},
    {"psi": (1, 0, 2, 1), "window": 5},
    {"penalty": 0.7, "max_step": 2.0, "max_length_diff": 3},
    {"inner_dist": "euclidean"},
    {"inner_dist": "euclidean", "window": 3, "max_dist": 4.0},
]


def make_collection(rnd, n, kind):
    """kind: 'list' (unequal lengths), 'listeq', 'matrix'."""
    if kind == "list":
        return [np.array([rnd.uniform(-2, 2) for _ in range(rnd.randint(1, 9))], dtype=np.double)
                for _ in range(n)]
    length = rnd.randint(1, 8)
    data = [[rnd.uniform(-2, 2) for _ in range(length)] for _ in range(n)]
    if kind == "listeq":
        return [np.array(row, dtype=np.double) for row in data]
    return np.array(data, dtype=np.double)


def make_collection_ndim(rnd, n, kind, ndim):
    if kind == "list":
        return [np.array([[rnd.uniform(-2, 2) for _ in range(ndim)] for _ in range(rnd.randint(1, 7))],
                         dtype=np.double) for _ in range(n)]
    length = rnd.randint(1, 6)
    return np.array([[[rnd.uniform(-2, 2) for _ in range(ndim)] for _ in range(length)] for _ in range(n)],
                    dtype=np.double)


def pick_blocks(rnd, n, k):
    blocks = [None]
    allb = list(all_blocks(n))
    if len(allb) <= k:
        chosen = allb
    else:
        chosen = rnd.sample(allb, k)
    for rr, cc in chosen:
        v = rnd.randint(0, 2)
        blocks.append([(rr, cc), (rr, cc, True), (rr, cc, False)][v])
    return blocks


def part_matrices_1d():
    rnd = random.Random(60601)
    for n in range(1, 8):
        for kind in ("list", "listeq", "matrix"):
            for rep in range(2):
                s = make_collection(rnd, n, kind)
                rec("data", lambda: s)
                for blk in pick_blocks(rnd, n, 7):
                    st = rnd.choice(SETTINGS)
                    for compact, only_triu in ((True, False), (False, False), (False, True)):
                        tag = "1d n=%d %s blk=%r st=%r c=%r t=%r" % (n, kind, blk, st, compact, only_triu)
                        rec("py " + tag, dtw.distance_matrix, s, block=blk, compact=compact,
                            only_triu=only_triu, use_c=False, parallel=False, **st)
                        rec("c " + tag, dtw.distance_matrix, s, block=blk, compact=compact,
                            only_triu=only_triu, use_c=True, parallel=False, **st)
                    rec("fast " + tag, dtw.distance_matrix_fast, s, block=blk, compact=True,
                        parallel=False, **{k: v for k, v in st.items()})
                    rec("pyser " + tag, dtw.distance_matrix_python, s, block=blk,
                        settings=dtw.DTWSettings(**st))
                    rec("ccser " + tag, dtw_cc.distance_matrix, s, block=blk,
                        **{k: v for k, v in st.items() if k != "inner_dist"})
    # exhaustive over blocks for one collection of each form, default settings
    for kind in ("list", "matrix"):
        n = 6
        s = make_collection(rnd, n, kind)
        for rr, cc in all_blocks(n):
            for blk in block_variants(rr, cc):
                tag = "1d-all %s blk=%r" % (kind, blk)
                rec("py " + tag, dtw.distance_matrix, s, block=blk, compact=True, use_c=False)
                rec("c " + tag, dtw.distance_matrix, s, block=blk, compact=True, use_c=True)
                rec("pysq " + tag, dtw.distance_matrix, s, block=blk, compact=False, use_c=False)
                rec("csq " + tag, dtw.distance_matrix, s, block=blk, compact=False, use_c=True,
                    only_triu=True)
    # square form helper directly
    for n in range(1, 7):
        for rr, cc in all_blocks(n):
            for blk in block_variants(rr, cc):
                ln = dtw._distance_matrix_length(blk, n)
                d = array.array('d', [rnd.uniform(0, 9) for _ in range(ln)])
                for ot in (False, True):
                    rec("a2m %d %r %r" % (n, blk, ot), dtw.distances_array_to_matrix, d, n, block=blk,
                        only_triu=ot)
    # python lists of lists / array.array input, no numpy arrays
    for n in range(1, 6):
        s = [[rnd.uniform(-1, 1) for _ in range(rnd.randint(1, 6))] for _ in range(n)]
        s2 = [array.array('d', x) for x in s]
        for blk in pick_blocks(rnd, n, 4):
            rec("pylist %d %r" % (n, blk), dtw.distance_matrix, s, block=blk, compact=True, use_c=False)
            rec("pyarr %d %r" % (n, blk), dtw.distance_matrix, s2, block=blk, compact=True, use_c=False)
            rec("carr %d %r" % (n, blk), dtw.distance_matrix, s2, block=blk, compact=True, use_c=True)


ND_SETTINGS = [{}, {"window": 2}, {"max_dist": 3.5}, {"penalty": 0.4, "psi": 1}, {"max_step": 1.5},
               {"max_length_diff": 1}, {"use_pruning": True}]


def part_matrices_nd():
    rnd = random.Random(60602)
    for ndim in (1, 2, 3):
        for n in range(1, 6):
            for kind in ("list", "matrix"):
                s = make_collection_ndim(rnd, n, kind, ndim)
                rec("data", lambda: s)
                for blk in pick_blocks(rnd, n, 6):
                    st = rnd.choice(ND_SETTINGS)
                    stf = {k: v for k, v in st.items() if k != "use_pruning"}
                    for compact, only_triu in ((True, False), (False, False), (False, True)):
                        tag = "nd=%d n=%d %s blk=%r st=%r c=%r t=%r" % (ndim, n, kind, blk, st, compact, only_triu)
                        rec("py " + tag, dtw_ndim.distance_matrix, s, ndim=ndim, block=blk, compact=compact,
                            only_triu=only_triu, use_c=False, parallel=False, **st)
                        rec("pyauto " + tag, dtw_ndim.distance_matrix, s, block=blk, compact=compact,
                            only_triu=only_triu, use_c=False, parallel=False, **st)
                        rec("c " + tag, dtw_ndim.distance_matrix, s, ndim=ndim, block=blk, compact=compact,
                            only_triu=only_triu, use_c=True, parallel=False, **st)
                        rec("fast " + tag, dtw_ndim.distance_matrix_fast, s, ndim=ndim, block=blk,
                            compact=compact, only_triu=only_triu, parallel=False, **stf)


# ---------------------------------------------------------------- 3. exported C matrix-form routines
class CSettings(ctypes.Structure):
    _fields_ = [("window", ctypes.c_ssize_t), ("max_dist", ctypes.c_double), ("max_step", ctypes.c_double),
                ("max_length_diff", ctypes.c_ssize_t), ("penalty", ctypes.c_double),
                ("psi_1b", ctypes.c_ssize_t), ("psi_1e", ctypes.c_ssize_t),
                ("psi_2b", ctypes.c_ssize_t), ("psi_2e", ctypes.c_ssize_t),
                ("use_pruning", ctypes.c_bool), ("only_ub", ctypes.c_bool),
                ("inner_dist", ctypes.c_int), ("window_type", ctypes.c_int)]


DP = ctypes.POINTER(ctypes.c_double)
SZ = ctypes.c_ssize_t
lib.dtw_settings_default.restype = CSettings
lib.dtw_settings_default.argtypes = []
for _name, _args in [
        ("dtw_distances_matrix", [DP, SZ, SZ, DP, ctypes.POINTER(CBlock), ctypes.POINTER(CSettings)]),
        ("dtw_distances_ndim_matrix", [DP, SZ, SZ, ctypes.c_int, DP, ctypes.POINTER(CBlock),
                                       ctypes.POINTER(CSettings)]),
        ("dtw_distances_matrices", [DP, SZ, SZ, DP, SZ, SZ, DP, ctypes.POINTER(CBlock),
                                    ctypes.POINTER(CSettings)]),
        ("dtw_distances_ndim_matrices", [DP, SZ, SZ, DP, SZ, SZ, ctypes.c_int, DP, ctypes.POINTER(CBlock),
                                         ctypes.POINTER(CSettings)])]:
    getattr(lib, _name).restype = SZ
    getattr(lib, _name).argtypes = _args


def c_matrix_call(name, mats, ndim, blk, window, nr, nc):
    """Call an exported dtw_distances_*matri* routine; returns (returned length, block after, output)."""
    st = lib.dtw_settings_default()
    st.window = window
    b = CBlock(*blk)
    ln = lib.dtw_distances_length(ctypes.byref(CBlock(*blk)), nr, nc)
    out = np.full(ln + 2, -7.0, dtype=np.double)  # two guard cells
    args = []
    for m in mats:
        args += [m.ctypes.data_as(DP), m.shape[0], m.shape[1]]
    if ndim is not None:
        args.append(ndim)
    args += [out.ctypes.data_as(DP), ctypes.byref(b), ctypes.byref(st)]
    ret = getattr(lib, name)(*args)
    return ret, (b.rb, b.re, b.cb, b.ce, b.triu), out


def part_c_matrices():
    rnd = random.Random(60603)
    for rep in range(6):
        nr = rnd.randint(1, 6)
        nc = rnd.randint(1, 6)
        lr = rnd.randint(1, 7)
        lc = rnd.randint(1, 7)
        ndim = rnd.randint(1, 3)
        m1 = np.array([[rnd.uniform(-2, 2) for _ in range(lr)] for _ in range(nr)], dtype=np.double)
        m2 = np.array([[rnd.uniform(-2, 2) for _ in range(lc)] for _ in range(nc)], dtype=np.double)
        n1 = np.array([[[rnd.uniform(-2, 2) for _ in range(ndim)] for _ in range(lr)] for _ in range(nr)],
                      dtype=np.double)
        n2 = np.array([[[rnd.uniform(-2, 2) for _ in range(ndim)] for _ in range(lc)] for _ in range(nc)],
                      dtype=np.double)
        rec("data", lambda: [m1, m2, n1, n2])
        blocks_same = [(0, 0, 0, 0, True)]
        for rr, cc in all_blocks(nr):
            for triu in (True, False):
                blocks_same.append((rr[0], rr[1], cc[0], cc[1], triu))
        for blk in blocks_same:
            w = rnd.choice([0, 0, 1, 3])
            rec("cmat %r w=%d" % (blk, w), c_matrix_call, "dtw_distances_matrix", [m1], None, blk, w, nr, nr)
            rec("cmatnd %r w=%d" % (blk, w), c_matrix_call, "dtw_distances_ndim_matrix", [n1], ndim, blk, w,
                nr, nr)
        # two collections: block given explicitly (the whole rectangle and sub-blocks)
        for rb in range(0, nr):
            for re in range(rb + 1, nr + 1):
                for cb in range(0, nc):
                    for ce in range(cb + 1, nc + 1):
                        blk = (rb, re, cb, ce, False)
                        w = rnd.choice([0, 0, 2])
                        rec("cmats %r w=%d" % (blk, w), c_matrix_call, "dtw_distances_matrices", [m1, m2],
                            None, blk, w, nr, nc)
                        rec("cmatsnd %r w=%d" % (blk, w), c_matrix_call, "dtw_distances_ndim_matrices",
                            [n1, n2], ndim, blk, w, nr, nc)
        rec("cmats none", c_matrix_call, "dtw_distances_matrices", [m1, m2], None, (0, 0, 0, 0, False), 0,
            nr, nc)
        rec("cmatsnd none", c_matrix_call, "dtw_distances_ndim_matrices", [n1, n2], ndim, (0, 0, 0, 0, False),
            0, nr, nc)


def main():
    # The C library reports some conditions with printf; keep stdout clean by
    # pointing file descriptor 1 at a temporary file while the routines run.
    # What the library printed is part of the digest.
    sys.stdout.flush()
    saved = os.dup(1)
    tmp = tempfile.TemporaryFile()
    os.dup2(tmp.fileno(), 1)
    try:
        part_lengths()
        part_matrices_1d()
        part_matrices_nd()
        part_c_matrices()
    finally:
        sys.stdout.flush()
        ctypes.CDLL(None).fflush(None)
        os.dup2(saved, 1)
        os.close(saved)
    tmp.seek(0)
    printed = tmp.read()
    tmp.close()
    H.update(b"C-STDOUT\n" + printed)
    sys.stderr.write("C_STDOUT_BYTES %d\n" % len(printed))
    sys.stderr.write("NB_RESULTS %d\n" % NB[0])
    print("DIGEST " + H.hexdigest())
    return 0


if __name__ == "__main__":
    sys.exit(main())
