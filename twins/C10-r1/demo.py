"""Randomised comparison for the pure-Python DTW kernel (dtw.distance, use_c=False)
and the pure-Python distance matrix built on it.

Prints `DIGEST <sha256 of the repr of all results>`.
"""
import array
import hashlib
import itertools
import random

import numpy as np

from dtaidistance import dtw, dtw_ndim, ed

results = []


def rec(tag, fn):
    # fn is a zero-argument callable; an exception is part of the observable result
    try:
        value = fn()
    except Exception as exc:  # noqa
        results.append((tag, 'EXC ' + type(exc).__name__ + ' ' + str(exc)))
        return
    if isinstance(value, np.ndarray):
        value = [float(x) for x in value.ravel().tolist()]
    elif isinstance(value, (list, tuple)):
        value = [float(x) for x in value]
    else:
        value = float(value)
    results.append((tag, repr(value)))


rng = random.Random(20240917)


def rseries(n, kind):
    if kind == 0:
        return [rng.uniform(-3, 3) for _ in range(n)]
    if kind == 1:
        return [float(rng.randint(-2, 2)) for _ in range(n)]
    x = 0.0
    out = []
    for _ in range(n):
        x += rng.gauss(0, 1)
        out.append(x)
    return out


def wrap(s, form):
    if form == 0:
        return np.array(s, dtype=np.double)
    if form == 1:
        return array.array('d', s)
    return list(s)


windows = [None, 1, 2, 3, 5, 9]
psis = [None, 0, 1, 2, 3, (1, 0, 0, 2), (0, 2, 1, 0), (2, 1, 1, 2)]
penalties = [None, 0.0, 0.1, 0.5, 2.0]
max_steps = [None, 0.5, 1.5, 4.0]
max_dists = [None, 1.0, 3.0, 10.0]
mlds = [None, 0, 1, 3]
inner = ['squared euclidean', 'euclidean']

# ---- 1. single pairs, 1-D, wide option sampling -------------------------------------------
for case in range(700):
    l1 = rng.randint(1, 14)
    l2 = l1 if rng.random() < 0.4 else rng.randint(1, 14)
    kind = rng.randint(0, 2)
    form = rng.randint(0, 2)
    a = rseries(l1, kind)
    b = rseries(l2, kind)
    if rng.random() < 0.1:
        b = list(a)
        l2 = l1
    kw = {}
    w = rng.choice(windows)
    if w is not None:
        kw['window'] = w
    p = rng.choice(psis)
    if p is not None:
        if isinstance(p, tuple):
            p = (min(p[0], l1), min(p[1], l1), min(p[2], l2), min(p[3], l2))
        else:
            p = min(p, l1, l2)
        kw['psi'] = p
    pe = rng.choice(penalties)
    if pe is not None:
        kw['penalty'] = pe
    ms = rng.choice(max_steps)
    if ms is not None:
        kw['max_step'] = ms
    md = rng.choice(max_dists)
    if md is not None:
        kw['max_dist'] = md
    ml = rng.choice(mlds)
    if ml is not None:
        kw['max_length_diff'] = ml
    if rng.random() < 0.25:
        kw['use_pruning'] = True
    kw['inner_dist'] = rng.choice(inner)
    s1, s2 = wrap(a, form), wrap(b, form)
    rec(('pair', case), lambda: dtw.distance(s1, s2, use_c=False, **kw))
    # swapped arguments with swapped psi entries
    kws = dict(kw)
    if isinstance(kw.get('psi'), tuple):
        q = kw['psi']
        kws['psi'] = (q[2], q[3], q[0], q[1])
    rec(('pair-swapped', case), lambda: dtw.distance(s2, s1, use_c=False, **kws))
    if rng.random() < 0.2:
        rec(('pair-ub', case), lambda: dtw.distance(s1, s2, use_c=False, only_ub=True, **kw) if l1 == l2 else -1.0)

# ---- 2. systematic ladders: window w / w+1, psi p / p+1, penalty, max_step --------------
for case in range(60):
    l1 = rng.randint(2, 12)
    l2 = l1 if case % 2 == 0 else rng.randint(2, 12)
    a = np.array(rseries(l1, case % 3), dtype=np.double)
    b = np.array(rseries(l2, case % 3), dtype=np.double)
    for idist in inner:
        for w in range(1, max(l1, l2) + 2):
            rec(('ladder-w', case, idist, w), lambda: dtw.distance(a, b, use_c=False, window=w, inner_dist=idist))
        for p in range(0, min(l1, l2) + 1):
            rec(('ladder-psi', case, idist, p), lambda: dtw.distance(a, b, use_c=False, psi=p, inner_dist=idist))
            rec(('ladder-psi-w', case, idist, p), lambda: dtw.distance(a, b, use_c=False, psi=p, window=2, inner_dist=idist))
        for pe in [0.0, 0.05, 0.3, 1.0, 3.0]:
            rec(('ladder-pen', case, idist, pe), lambda: dtw.distance(a, b, use_c=False, penalty=pe, window=3, inner_dist=idist))
        for ms in [0.25, 0.75, 1.5, 3.0, 6.0]:
            rec(('ladder-ms', case, idist, ms), lambda: dtw.distance(a, b, use_c=False, max_step=ms, inner_dist=idist))
    if l1 == l2:
        rec(('ed', case), lambda: ed.distance(a, b))
        rec(('w1', case), lambda: dtw.distance(a, b, use_c=False, window=1))
    rec(('self', case), lambda: dtw.distance(a, a, use_c=False))

# ---- 3. n-dimensional series -----------------------------------------------------------------
nrng = np.random.RandomState(777)
for case in range(150):
    nd = int(nrng.randint(1, 4))
    l1 = int(nrng.randint(1, 10))
    l2 = l1 if nrng.rand() < 0.4 else int(nrng.randint(1, 10))
    a = nrng.randn(l1, nd)
    b = nrng.randn(l2, nd)
    kw = {}
    w = rng.choice(windows)
    if w is not None:
        kw['window'] = w
    p = rng.choice([None, 0, 1, 2])
    if p is not None:
        kw['psi'] = min(p, l1, l2)
    pe = rng.choice(penalties)
    if pe is not None:
        kw['penalty'] = pe
    ms = rng.choice(max_steps)
    if ms is not None:
        kw['max_step'] = ms
    md = rng.choice(max_dists)
    if md is not None:
        kw['max_dist'] = md
    kw['inner_dist'] = rng.choice(inner)
    rec(('ndim', case), lambda: dtw_ndim.distance(a, b, use_c=False, **kw))
    rec(('ndim-swapped', case), lambda: dtw_ndim.distance(b, a, use_c=False, **kw))
    rec(('ndim-via-dtw', case), lambda: dtw.distance(a, b, use_c=False, use_ndim=True, **kw))

# ---- 4. distance matrices through the Python engine ---------------------------------------------
for case in range(40):
    n = rng.randint(2, 6)
    equal = case % 2 == 0
    L = rng.randint(3, 9)
    series = [np.array(rseries(L if equal else rng.randint(2, 9), case % 3), dtype=np.double) for _ in range(n)]
    kw = {}
    w = rng.choice(windows)
    if w is not None:
        kw['window'] = w
    p = rng.choice([None, 0, 1])
    if p is not None:
        kw['psi'] = p
    pe = rng.choice(penalties)
    if pe is not None:
        kw['penalty'] = pe
    md = rng.choice([None, 2.0, 8.0])
    if md is not None:
        kw['max_dist'] = md
    for compact, only_triu in itertools.product([False, True], [False, True]):
        rec(('matrix', case, compact, only_triu), lambda: np.asarray(
            dtw.distance_matrix(series, use_c=False, parallel=False, compact=compact,
                                only_triu=only_triu, **kw), dtype=np.double))
    if n >= 4:
        block = ((0, n - 1), (1, n))
        rec(('matrix-block', case), lambda: np.asarray(
            dtw.distance_matrix(series, use_c=False, parallel=False, block=block, **kw), dtype=np.double))

h = hashlib.sha256(repr(results).encode('utf-8')).hexdigest()
print("N", len(results))
print("DIGEST", h)
