#!/usr/bin/env python
"""Randomised comparison for dtaidistance.dtw.distance (pure Python engine).

Prints one line  DIGEST <sha256>  over the repr of all results.
Run with PYTHONPATH pointing at the library's src directory.
The script runs the same workload twice: with NumPy importable and (in a
child process, DTAIDISTANCE_TESTWITHOUTNUMPY=1) without NumPy.
"""
import array
import hashlib
import os
import random
import subprocess
import sys


def fhex(x):
    try:
        return float(x).hex()
    except Exception:
        return repr(x)


class AbsCube:
    """User supplied inner distance object (|x-y|**3, cube root)."""

    @staticmethod
    def inner_dist(x, y):
        return abs(x - y) ** 3

    @staticmethod
    def result(x):
        return x ** (1.0 / 3.0)

    @staticmethod
    def inner_val(x):
        return x * x * x


class IntAbs:
    """User supplied inner distance that returns Python ints for int input."""

    @staticmethod
    def inner_dist(x, y):
        d = x - y
        return d if d >= 0 else -d

    @staticmethod
    def result(x):
        return x

    @staticmethod
    def inner_val(x):
        return x


def rand_series(rng, n, kind):
    if kind == 0:
        return [rng.uniform(-3.0, 3.0) for _ in range(n)]
    if kind == 1:
        return [float(rng.randint(-3, 3)) for _ in range(n)]
    if kind == 2:
        return [rng.randint(-4, 4) for _ in range(n)]
    # few distinct values -> many ties
    return [rng.choice([0.0, 0.5, 1.0, 2.5]) for _ in range(n)]


def rand_psi(rng, r, c):
    k = rng.random()
    if k < 0.35:
        return None
    if k < 0.6:
        return rng.randint(0, max(0, min(r, c) - 1))
    if k < 0.9:
        return (rng.randint(0, max(0, r - 1)), rng.randint(0, max(0, r - 1)),
                rng.randint(0, max(0, c - 1)), rng.randint(0, max(0, c - 1)))
    return [rng.randint(0, r), rng.randint(0, r), rng.randint(0, c), rng.randint(0, c)]


def rand_settings(rng, r, c):
    kw = {}
    k = rng.random()
    if k < 0.3:
        pass
    elif k < 0.4:
        kw['window'] = None
    else:
        kw['window'] = rng.randint(1, max(r, c) + 2)
    if rng.random() < 0.5:
        kw['penalty'] = rng.choice([0, 0.0, 0.1, 0.5, 1, 2.5, rng.uniform(0, 2)])
    psi = rand_psi(rng, r, c)
    if psi is not None or rng.random() < 0.1:
        kw['psi'] = psi
    if rng.random() < 0.4:
        kw['max_step'] = rng.choice([None, 0, 0.5, 1.0, 1.5, 2, 3.0, rng.uniform(0.1, 5)])
    if rng.random() < 0.3:
        kw['max_length_diff'] = rng.choice([None, 0, 1, 2, 3, 5, float('inf')])
    if rng.random() < 0.3:
        kw['max_dist'] = rng.choice([None, 0, 0.2, 1.0, 2.0, 4.0, rng.uniform(0.1, 8)])
    if rng.random() < 0.2:
        kw['use_pruning'] = rng.choice([True, False])
    k = rng.random()
    if k < 0.4:
        pass
    elif k < 0.55:
        kw['inner_dist'] = 'squared euclidean'
    elif k < 0.8:
        kw['inner_dist'] = 'euclidean'
    elif k < 0.92:
        kw['inner_dist'] = AbsCube
    else:
        kw['inner_dist'] = IntAbs()
    return kw


def kw_repr(kw):
    out = []
    for k in sorted(kw):
        v = kw[k]
        if k == 'inner_dist' and not isinstance(v, str):
            v = type(v).__name__ if not isinstance(v, type) else v.__name__
        out.append((k, repr(v)))
    return out


def workload(seed, n_cases):
    from dtaidistance import dtw
    from dtaidistance import innerdistance
    try:
        from dtaidistance import util_numpy
        if util_numpy.test_without_numpy():
            raise ImportError()
        import numpy as np
    except ImportError:
        np = None

    rng = random.Random(seed)
    results = []

    def call(s1, s2, kw, only_ub=False):
        try:
            if only_ub:
                v = dtw.distance(s1, s2, only_ub=True, **kw)
            else:
                v = dtw.distance(s1, s2, **kw)
            return ('ok', type(v).__name__, fhex(v))
        except Exception as exc:  # keep the error class and text
            return ('exc', type(exc).__name__, str(exc))

    # 1. exhaustive small grid: lengths x window x psi x penalty
    grid_rng = random.Random(seed + 1)
    for r in range(1, 7):
        for c in range(1, 7):
            s1 = rand_series(grid_rng, r, 3)
            s2 = rand_series(grid_rng, c, 3)
            for window in [None, 1, 2, 3, 7]:
                for psi in [None, 1, 2, (1, 0, 0, 2), (0, 2, 1, 0), (2, 1, 1, 1)]:
                    if isinstance(psi, int) and psi > min(r, c):
                        continue
                    if isinstance(psi, tuple) and (max(psi[0], psi[1]) > r or max(psi[2], psi[3]) > c):
                        continue
                    for penalty in [None, 0.5]:
                        for max_step in [None, 1.5]:
                            kw = {'window': window, 'psi': psi, 'penalty': penalty, 'max_step': max_step}
                            results.append((r, c, kw_repr(kw), call(s1, s2, kw)))

    # 2. random option crossings
    for case in range(n_cases):
        r = rng.randint(1, 14)
        c = rng.randint(1, 14)
        if rng.random() < 0.25:
            c = r
        kind = rng.randint(0, 3)
        s1 = rand_series(rng, r, kind)
        s2 = rand_series(rng, c, kind)
        kw = rand_settings(rng, r, c)
        if isinstance(kw.get('inner_dist'), IntAbs) and kind != 2:
            pass
        cont = rng.randint(0, 2)
        if cont == 1 and kind != 2:
            a1, a2 = array.array('d', s1), array.array('d', s2)
        elif cont == 2 and np is not None and kind != 2:
            a1, a2 = np.array(s1, dtype=np.double), np.array(s2, dtype=np.double)
        else:
            a1, a2 = s1, s2
        results.append((case, cont if (np is not None or cont != 2) else 0, kw_repr(kw), call(a1, a2, kw)))
        if rng.random() < 0.1:
            results.append((case, 'ub', call(a1, a2, kw, only_ub=True)))
        if rng.random() < 0.1:
            # symmetric call
            results.append((case, 'swap', call(a2, a1, {k: v for k, v in kw.items() if k != 'psi'})))

    # 3. longer series with narrow windows, psi and pruning
    for case in range(60):
        r = rng.randint(20, 45)
        c = rng.randint(20, 45)
        s1 = rand_series(rng, r, 0)
        s2 = rand_series(rng, c, 0)
        kw = {'window': rng.choice([None, 1, 2, 3, 5, 10, 50]),
              'psi': rng.choice([None, 0, 1, 3, 5, (3, 0, 0, 4), (0, 5, 2, 0), (4, 4, 4, 4)]),
              'penalty': rng.choice([None, 0.3]),
              'use_pruning': rng.choice([False, True]),
              'max_step': rng.choice([None, 2.0, 4.0]),
              'inner_dist': rng.choice(['squared euclidean', 'euclidean'])}
        results.append(('long', case, kw_repr(kw), call(s1, s2, kw)))

    # 4. the settings object and the helper functions of innerdistance
    for inner in ['squared euclidean', 'euclidean', AbsCube, 'unknown']:
        for ndim in [False, True]:
            try:
                cls = innerdistance.inner_dist_cls(inner, use_ndim=ndim)
                fns = innerdistance.inner_dist_fns(inner, use_ndim=ndim)
                results.append(('cls', str(inner), ndim, cls.__name__, [f.__qualname__ for f in fns]))
            except Exception as exc:
                results.append(('cls', str(inner), ndim, type(exc).__name__, str(exc)))
    for psi in [None, 0, 3, (1, 2, 3, 4), [4, 3, 2, 1], 2.0]:
        st = dtw.DTWSettings(psi=psi, penalty=0.5, max_step=2, max_dist=3, max_length_diff=4, window=3)
        results.append(('settings', repr(psi), st.split_psi(), fhex(st.adj_penalty), fhex(st.adj_max_step),
                        fhex(st.adj_max_dist), repr(st.adj_max_length_diff), str(st)))
        st2 = dtw.DTWSettings.for_dtw([0., 1., 2.], [1., 2.], psi=psi, use_pruning=True)
        results.append(('for_dtw', repr(psi), st2.window, fhex(st2.adj_max_dist), sorted(st2.kwargs().items(), key=str).__repr__()))

    # 5. other pure-Python callers of distance()
    series = [rand_series(rng, rng.randint(3, 9), 0) for _ in range(6)]
    for kw in [{}, {'window': 2}, {'psi': 1, 'penalty': 0.2}, {'max_dist': 1.5}, {'max_length_diff': 2}]:
        try:
            m = dtw.distance_matrix(series, use_c=False, compact=True, **kw)
            results.append(('dm', kw_repr(kw), [fhex(v) for v in m]))
        except Exception as exc:
            results.append(('dm', kw_repr(kw), type(exc).__name__, str(exc)))

    return results


def main():
    seed = 20240601
    n_cases = 4000
    if len(sys.argv) > 1 and sys.argv[1] == '--child':
        res = workload(seed, n_cases)
        sys.stdout.write(hashlib.sha256(repr(res).encode('utf8')).hexdigest() + ' ' + str(len(res)) + '\n')
        return 0
    res_np = workload(seed, n_cases)
    env = dict(os.environ)
    env['DTAIDISTANCE_TESTWITHOUTNUMPY'] = '1'
    child = subprocess.run([sys.executable, os.path.abspath(__file__), '--child'], env=env,
                           stdout=subprocess.PIPE, stderr=subprocess.PIPE, universal_newlines=True)
    if child.returncode != 0:
        sys.stderr.write(child.stderr)
        return 1
    child_line = child.stdout.strip().splitlines()[-1]
    n_ok = sum(1 for x in res_np if isinstance(x[-1], tuple) and x[-1][0] == 'ok')
    n_exc = sum(1 for x in res_np if isinstance(x[-1], tuple) and x[-1][0] == 'exc')
    n_inf = sum(1 for x in res_np if isinstance(x[-1], tuple) and x[-1][0] == 'ok' and x[-1][2] == 'inf')
    sys.stderr.write('results={} ok={} exc={} inf={} child={}\n'.format(len(res_np), n_ok, n_exc, n_inf, child_line))
    total = repr((res_np, child_line))
    print('DIGEST ' + hashlib.sha256(total.encode('utf8')).hexdigest())
    return 0


if __name__ == '__main__':
    sys.exit(main())
