#!/usr/bin/env python
"""Randomised comparison for KMeans.fit (DBA k-means).

Runs KMeans.fit through the public API on many seeded random data sets and
option combinations, records every observable result (cluster index sets,
iteration count, means, monitor_distances callback arguments, stdout text,
exceptions) and prints one line  DIGEST <sha256>.
"""
import contextlib
import hashlib
import io
import itertools
import logging
import random
import sys

import numpy as np

from dtaidistance.clustering.kmeans import KMeans
from dtaidistance import dtw_cc

logging.getLogger("be.kuleuven.dtai.distance").setLevel(logging.ERROR)


def fl(x):
    """Exact (bit-for-bit) representation of floats / nested arrays."""
    if isinstance(x, np.ndarray):
        return ('nd', x.shape, str(x.dtype), x.tobytes().hex())
    if isinstance(x, (list, tuple)):
        return [fl(v) for v in x]
    if isinstance(x, float):
        return float(x).hex()
    if isinstance(x, (np.floating,)):
        return float(x).hex()
    if isinstance(x, (np.integer,)):
        return int(x)
    try:
        return [fl(v) for v in x]
    except TypeError:
        return repr(x)


def dba_window_safe(lengths, window, ts=None):
    """The C barycenter code sizes its warping-paths buffer for the longest series;
    with a window and series of different lengths that buffer can be too small
    (undefined behaviour in the original code). Such combinations are avoided."""
    if not window:
        return True
    mx = max(lengths)
    for t in (set(lengths) if ts is None else ts):
        ref = min(mx + 1, abs(t - mx) + 2 * min(window, max(t, mx)) + 1)
        for ln in lengths:
            if min(ln + 1, abs(t - ln) + 2 * min(window, max(t, ln)) + 1) > ref:
                return False
    return True


def make_data(rng, n, length, ndim, dup, as_list, varlen):
    if ndim == 1:
        base = rng.standard_normal((n, length))
        base += np.sin(np.linspace(0, 3, length))[None, :] * rng.integers(0, 3, size=(n, 1))
    else:
        base = rng.standard_normal((n, length, ndim))
    base = np.round(base, 3) if rng.random() < 0.3 else base
    if dup:
        for _ in range(dup):
            a, b = rng.integers(0, n, size=2)
            base[a] = base[b]
    base = np.ascontiguousarray(base, dtype=np.double)
    if as_list:
        out = []
        for i in range(n):
            ln = length
            if varlen:
                ln = int(rng.integers(max(3, length - 4), length + 1))
            out.append(np.ascontiguousarray(base[i][:ln]))
        return out
    return base


def run_one(seed, data, k, init, drop, dopts, use_parallel, max_it, with_monitor, stop_at):
    random.seed(seed)
    np.random.seed(seed)
    dtw_cc.srand(seed % 1000 + 1)
    kw = dict(k=k, max_it=max_it, max_dba_it=4, drop_stddev=drop,
              dists_options=dict(dopts), show_progress=False)
    if init == 'pp':
        pass
    elif init == 'pp_sample':
        kw['initialize_sample_size'] = 2
    elif init == 'pp_sample1':
        kw['initialize_sample_size'] = 1
    elif init == 'random':
        kw['initialize_with_kmeanspp'] = False
    calls = []

    def monitor(cd, stopped):
        calls.append((fl([list(t) for t in cd]), stopped))
        if stop_at is not None and len(calls) >= stop_at:
            return False
        return True

    buf = io.StringIO()
    rec = {}
    try:
        model = KMeans(**kw)
        with contextlib.redirect_stdout(buf):
            cluster_idx, performed_it = model.fit(
                data, use_parallel=use_parallel,
                monitor_distances=monitor if with_monitor else None)
        rec['clusters'] = [(ki, sorted(int(i) for i in v)) for ki, v in sorted(cluster_idx.items())]
        rec['keys_order'] = [int(ki) for ki in cluster_idx.keys()]
        rec['it'] = performed_it
        rec['means'] = [fl(np.asarray(m)) for m in model.means]
        rec['same_obj'] = cluster_idx is model.cluster_idx
    except Exception as exc:  # recorded, part of the observable behaviour
        rec['exc'] = (type(exc).__name__, str(exc))
    rec['calls'] = calls
    rec['stdout'] = buf.getvalue()
    return rec


def main():
    results = []
    dopt_list = [
        {},
        {'window': 3},
        {'window': 4, 'penalty': 0.5},
        {'penalty': 0.2, 'psi': 1},
        {'max_step': 5.0},
    ]
    inits = ['pp', 'pp_sample', 'pp_sample1', 'random']
    drops = [None, 0, 1, 3, 5]
    cfg_id = 0
    for seed in range(14):
        rng = np.random.default_rng(1000 + seed)
        for ndim in (1, 2):
            n = int(rng.integers(6, 13))
            length = int(rng.integers(7, 13))
            dup = int(rng.integers(0, 4))
            as_list = bool(rng.integers(0, 2))
            varlen = as_list and bool(rng.integers(0, 2))
            data = make_data(rng, n, length, ndim, dup, as_list, varlen)
            # (a numpy matrix cannot be used with use_c=True in this build: the numpy helper
            #  extension fails to import dtw_cc, so the C runs get a list of arrays)
            data_c = data if as_list else [np.ascontiguousarray(row) for row in data]
            for k in (2, 3, min(5, n - 1)):
                for use_c in (False, True):
                    # a rotating subset of the option grid for each data set
                    for j in range(5):
                        cfg_id += 1
                        init = inits[(cfg_id + j) % len(inits)]
                        drop = drops[(cfg_id // 2 + j) % len(drops)]
                        dopts = dict(dopt_list[(cfg_id // 3 + j) % len(dopt_list)])
                        dopts['use_c'] = use_c
                        if use_c and not dba_window_safe([len(x) for x in data], dopts.get('window')):
                            del dopts['window']
                        use_parallel = (cfg_id % 11 == 0)
                        max_it = (1, 3, 6)[cfg_id % 3]
                        with_monitor = (cfg_id % 2 == 0)
                        stop_at = 2 if cfg_id % 10 == 4 else None
                        rec = run_one(seed * 7919 + cfg_id, data_c if use_c else data, k, init, drop, dopts,
                                      use_parallel, max_it, with_monitor, stop_at)
                        results.append((cfg_id, seed, ndim, n, length, as_list, varlen, k, init,
                                        drop, sorted(dopts.items()), use_parallel, max_it,
                                        with_monitor, stop_at, rec))
    # fit_fast (forces use_c and the parallel path) on a few data sets
    for seed in range(3):
        rng = np.random.default_rng(5000 + seed)
        for ndim in (1, 2):
            data = make_data(rng, 9, 10, ndim, 2, False, False)
            random.seed(seed)
            np.random.seed(seed)
            calls = []
            model = KMeans(k=3, max_it=4, max_dba_it=3, drop_stddev=(None, 2)[seed % 2],
                           dists_options={'window': 5}, show_progress=False)
            buf = io.StringIO()
            try:
                with contextlib.redirect_stdout(buf):
                    cidx, pit = model.fit_fast(data, monitor_distances=lambda cd, st: calls.append(
                        (fl([list(t) for t in cd]), st)) or True)
                results.append(('fit_fast', seed, ndim, sorted((a, sorted(b)) for a, b in cidx.items()), pit,
                                [fl(np.asarray(m)) for m in model.means], calls, buf.getvalue()))
            except Exception as exc:  # fit_fast currently raises for dict options; recorded as-is
                results.append(('fit_fast', seed, ndim, type(exc).__name__, str(exc), calls, buf.getvalue()))
    nexc = sum(1 for r in results if isinstance(r[-1], dict) and 'exc' in r[-1])
    print('runs', len(results), 'with exception', nexc, file=sys.stderr)
    digest = hashlib.sha256(repr(results).encode('utf-8')).hexdigest()
    print('DIGEST ' + digest)
    return 0


if __name__ == '__main__':
    sys.exit(main())
