"""Randomised bit-for-bit comparison for the DBA routines (property C12).

Calls dtw_barycenter.dba (Python engine and use_c=True), dtw_cc.dba / dtw_cc.dba_ndim
(deterministic and prob-sampled), and dtw_barycenter.dba_loop (both engines,
keep_averages on/off, thr None / small / large, different max_it) on seeded random
collections: equal / unequal length, ndim 1..3, list or matrix container, random
masks with at least one selected series, window / penalty / psi settings.
Prints one line: DIGEST <sha256 of the repr of all results>.
"""
import hashlib
import io
import contextlib
import random
import sys

import numpy as np

from dtaidistance import dtw_barycenter, dtw_cc
from dtaidistance.util import SeriesContainer

results = []


def rec(tag, val):
    results.append((tag, val))


def tobytes(a):
    a = np.ascontiguousarray(np.asarray(a, dtype=np.double))
    return (a.shape, a.tobytes().hex())


def make_series(rng, nb, ndim, equal, container):
    if equal:
        L = int(rng.integers(3, 12))
        lens = [L] * nb
    else:
        lens = [int(rng.integers(3, 12)) for _ in range(nb)]
    style = int(rng.integers(0, 3))
    out = []
    for L in lens:
        shape = (L,) if ndim == 1 else (L, ndim)
        if style == 0:
            a = rng.normal(size=shape)
        elif style == 1:
            # integers: many ties in the warping matrix
            a = rng.integers(-3, 4, size=shape).astype(np.double)
        else:
            a = np.cumsum(rng.normal(size=shape), axis=0)
        out.append(np.ascontiguousarray(a, dtype=np.double))
    if container == 'matrix' and equal:
        return np.ascontiguousarray(np.array(out, dtype=np.double))
    return out


def make_mask(rng, nb):
    kind = int(rng.integers(0, 4))
    if kind == 0:
        return None
    if kind == 1:
        m = np.full((nb,), True, dtype=bool)
    else:
        m = rng.random(nb) < 0.5
    if not m.any():
        m[int(rng.integers(0, nb))] = True
    return m


def make_init(rng, s, ndim, mask):
    kind = int(rng.integers(0, 3))
    nb = len(s)
    if kind == 0:
        sel = [i for i in range(nb) if mask is None or mask[i]]
        return np.array(s[sel[int(rng.integers(0, len(sel)))]], dtype=np.double).copy()
    L = int(rng.integers(2, 12))
    shape = (L,) if ndim == 1 else (L, ndim)
    if kind == 1:
        return np.ascontiguousarray(rng.normal(size=shape))
    return np.zeros(shape, dtype=np.double)


def make_settings(rng, equal):
    # NB: a window narrower than the series combined with series of unequal
    # length makes the (unmodified) C kernels write outside their buffer, so
    # narrow windows are only drawn for equal-length collections.
    kw = {}
    k = int(rng.integers(0, 6))
    if not equal and k in (1, 3):
        k = 5
    if k == 1:
        kw['window'] = int(rng.integers(1, 6))
    elif k == 2:
        kw['penalty'] = float(rng.choice([0.1, 0.5, 2.0]))
    elif k == 3:
        kw['window'] = int(rng.integers(2, 8))
        kw['penalty'] = float(rng.choice([0.1, 1.0]))
    elif k == 4:
        kw['psi'] = int(rng.integers(1, 3))
    elif k == 5:
        kw['window'] = int(rng.integers(8, 20))
    return kw


def call(tag, fn):
    buf = io.StringIO()
    try:
        with contextlib.redirect_stdout(buf):
            r = fn()
    except Exception as exc:  # same exception must come back before and after
        rec(tag, ('EXC', type(exc).__name__, str(exc)))
        return None
    rec(tag + ':stdout', buf.getvalue())
    return r


def packed(mask, nb):
    if mask is None:
        mask = np.full((nb,), True, dtype=bool)
    return np.packbits(mask, bitorder='little')


def main():
    rng = np.random.default_rng(20240612)
    random.seed(12345)
    dtw_cc.srand(7) if hasattr(dtw_cc, 'srand') else None
    n_cases = 700
    for case in range(n_cases):
        ndim = int(rng.integers(1, 4))
        nb = int(rng.integers(1, 12)) if case % 9 else int(rng.integers(8, 20))
        equal = bool(rng.integers(0, 2))
        container = 'matrix' if rng.integers(0, 2) else 'list'
        s = make_series(rng, nb, ndim, equal, container)
        if case % 37 == 0:
            # identical series: fixed point
            first = np.array(s[0], dtype=np.double)
            s = [first.copy() for _ in range(nb)]
            if container == 'matrix':
                s = np.ascontiguousarray(np.array(s))
        mask = make_mask(rng, nb)
        c0 = make_init(rng, s, ndim, mask)
        kw = make_settings(rng, equal)
        hdr = (case, ndim, nb, equal, container, type(s).__name__,
               None if mask is None else mask.tolist(), tobytes(c0), sorted(kw.items()))
        rec('hdr', hdr)

        # --- one step, Python engine and Python-with-C-paths
        for use_c in (False, True):
            r = call('dba', lambda: dtw_barycenter.dba(s, c0.copy(), mask=mask, use_c=use_c, **kw))
            if r is not None:
                rec('dba/%s' % use_c, tobytes(r))
        if case % 5 == 0:
            r = call('dba_cnone', lambda: dtw_barycenter.dba(s, None, mask=mask, use_c=False, **kw))
            if r is not None:
                rec('dba/cnone', tobytes(r))

        # --- one step, C kernels directly
        pm = packed(mask, nb)
        for nbp in (0, 2):
            cc = c0.copy()
            if ndim == 1:
                r = call('cc.dba', lambda: dtw_cc.dba(s, cc, mask=pm, nb_prob_samples=nbp, **kw))
            else:
                r = call('cc.dba_ndim', lambda: dtw_cc.dba_ndim(s, cc, mask=pm, nb_prob_samples=nbp,
                                                               ndim=ndim, **kw))
            if r is not None:
                rec('cc/%d' % nbp, (tobytes(np.asarray(r)), tobytes(cc)))
        # wrapped container
        cc = c0.copy()
        sc = SeriesContainer.wrap(s)
        if ndim == 1:
            r = call('cc.dba.sc', lambda: dtw_cc.dba(sc, cc, mask=pm, nb_prob_samples=0, **kw))
        else:
            r = call('cc.dba_ndim.sc', lambda: dtw_cc.dba_ndim(sc, cc, mask=pm, nb_prob_samples=0,
                                                              ndim=ndim, **kw))
        if r is not None:
            rec('cc/sc', tobytes(cc))

        # --- loop
        max_it = int(rng.integers(0, 6)) if case % 11 == 0 else int(rng.integers(1, 6))
        thr = [0.001, None, 0.5, 0.0][int(rng.integers(0, 4))]
        keep = bool(rng.integers(0, 2))
        use_init = bool(rng.integers(0, 3))
        for use_c in (False, True):
            mk = mask
            cinit = c0.copy() if use_init else None
            if max_it == 0:
                # avg stays None; both engines return None (or (None, []))
                pass
            r = call('loop', lambda: dtw_barycenter.dba_loop(
                s, c=cinit, max_it=max_it, thr=thr, mask=mk, keep_averages=keep, use_c=use_c, **kw))
            if r is None:
                rec('loop/%s' % use_c, None)
            elif keep:
                avg, avgs = r
                rec('loop/%s' % use_c, (None if avg is None else tobytes(avg),
                                        [tobytes(a) for a in avgs]))
            else:
                rec('loop/%s' % use_c, tobytes(r))
        if isinstance(s, np.ndarray):
            # matrix container handed to the C loop as a list of its rows
            # (the numpy fast path of SeriesContainer is unavailable here)
            rows = [np.ascontiguousarray(row) for row in s]
            cinit = c0.copy() if use_init else None
            r = call('loop_rows', lambda: dtw_barycenter.dba_loop(
                rows, c=cinit, max_it=max_it, thr=thr, mask=mask, keep_averages=keep, use_c=True, **kw))
            if r is None:
                rec('loop/rows', None)
            elif keep:
                rec('loop/rows', (None if r[0] is None else tobytes(r[0]), [tobytes(a) for a in r[1]]))
            else:
                rec('loop/rows', tobytes(r))
        if case % 4 == 0:
            cinit = c0.copy()
            r = call('loop_prob', lambda: dtw_barycenter.dba_loop(
                s, c=cinit, max_it=max_it, thr=thr, mask=mask, keep_averages=False, use_c=True,
                nb_prob_samples=3, **kw))
            rec('loop/prob', None if r is None else tobytes(r))
        if case % 50 == 0:
            # error paths must be unchanged as well
            call('loop_err1', lambda: dtw_barycenter.dba_loop(
                s, c=c0.copy(), max_it=2, mask=mask, use_c=False, nb_prob_samples=2, **kw))
            call('loop_err2', lambda: dtw_barycenter.dba_loop(
                s, c=c0.copy(), max_it=2, mask=[True] * nb, use_c=True, **kw))
            r = call('loop_init', lambda: dtw_barycenter.dba_loop(
                s, c=None, max_it=2, mask=mask, use_c=False, nb_initial_samples=3, **kw))
            rec('loop/init', None if r is None else tobytes(r))

    h = hashlib.sha256(repr(results).encode('utf-8')).hexdigest()
    nexc = sum(1 for t, v in results if isinstance(v, tuple) and len(v) == 3 and v[0] == 'EXC')
    sys.stderr.write('records=%d exceptions=%d\n' % (len(results), nexc))
    if '-v' in sys.argv:
        import collections
        cnt = collections.Counter((t, v[1], v[2][:60]) for t, v in results
                                  if isinstance(v, tuple) and len(v) == 3 and v[0] == 'EXC')
        for k, n in cnt.most_common():
            sys.stderr.write('%5d %r\n' % (n, k))
    print('DIGEST ' + h)


if __name__ == '__main__':
    main()
