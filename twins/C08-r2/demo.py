#!/usr/bin/env python3
"""Randomised comparison for the refactoring of dtw_cc.warping_path and
dtw_cc.best_path_compact (src/dtaidistance/dtw_cc.pyx).

Both wrappers allocate the index arrays i1/i2 of len1+len2 entries, let the C
engine fill them and turn them into a list of (row, col) tuples.  The script
calls them directly and through dtw.warping_path_fast / dtw.warping_path /
dtw_barycenter.dba (Python DBA loop with the C warping path) over all small
(len1, len2) x window 0..max+1 x psi 4-tuples x penalty / max_step / max_dist
x inner distance, and also records the exact type of every returned element.
The untouched siblings (warping_path_ndim, best_path_compact_affinity,
warping_path_prob) are included as controls.

Prints one line `DIGEST <sha256>` over the repr of all results.
"""
import hashlib
import itertools
import random
import struct
import sys

import numpy as np

from dtaidistance import dtw, dtw_cc
from dtaidistance import dtw_barycenter

results = []


def fl(x):
    return struct.pack('<d', float(x)).hex()


def arr(a):
    a = np.ascontiguousarray(a, dtype=np.double)
    return (a.shape, hashlib.sha256(a.tobytes()).hexdigest())


def typed(path):
    """Path plus the exact types of the container and its elements."""
    return (type(path).__name__,
            [(type(t).__name__, type(t[0]).__name__, type(t[1]).__name__, t[0], t[1]) for t in path])


def rnd_series(rng, n, ndim=None):
    if ndim is None:
        return np.array([rng.choice([0., 1., 2., 0.5, -1., 3.25]) if rng.random() < 0.5
                         else rng.uniform(-3, 3) for _ in range(n)], dtype=np.double)
    return np.array([[rng.uniform(-3, 3) for _ in range(ndim)] for _ in range(n)], dtype=np.double)


def options(rng, l1, l2, window):
    kw = {}
    if window is not None:
        kw['window'] = window
    r = rng.random()
    if r < 0.4:
        kw['psi'] = (rng.randint(0, l1), rng.randint(0, l1), rng.randint(0, l2), rng.randint(0, l2))
    elif r < 0.55:
        kw['psi'] = rng.randint(0, min(l1, l2))
    if rng.random() < 0.5:
        kw['penalty'] = rng.choice([0.1, 0.5, 1.0, 2.5])
    if rng.random() < 0.4:
        kw['max_step'] = rng.choice([0.5, 1.0, 2.0, 4.0])
    if rng.random() < 0.4:
        kw['max_dist'] = rng.choice([0.5, 1.5, 3.0, 10.0])
    kw['inner_dist'] = rng.choice(['squared euclidean', 'euclidean'])
    return kw


def one_config(rng, l1, l2, window):
    kw = options(rng, l1, l2, window)
    s1 = rnd_series(rng, l1)
    s2 = rnd_series(rng, l2)
    rec = [('cfg', l1, l2, sorted(kw.items()))]

    # --- warping_path (refactored) ---
    p = dtw_cc.warping_path(s1, s2, **kw)
    rec.append(('wp', typed(p)))
    r = dtw_cc.warping_path(s1, s2, include_distance=True, **kw)
    rec.append(('wp+d', type(r).__name__, len(r), typed(r[0]), type(r[1]).__name__, fl(r[1])))
    r = dtw_cc.warping_path(s1, s2, True, **kw)
    rec.append(('wp+d.pos', typed(r[0]), fl(r[1])))
    r = dtw_cc.warping_path(s1, s2, include_distance=False, **kw)
    rec.append(('wp-d', typed(r)))
    # swapped arguments
    kws = dict(kw)
    if isinstance(kws.get('psi'), tuple):
        a, b, c, d = kws['psi']
        kws['psi'] = (c, d, a, b)
    rec.append(('wp.swap', typed(dtw_cc.warping_path(s2, s1, **kws))))
    # via the Python front-ends
    rec.append(('dtw.wpf', typed(dtw.warping_path_fast(s1, s2, **kw))))
    r = dtw.warping_path_fast(s1, s2, include_distance=True, **kw)
    rec.append(('dtw.wpf+d', typed(r[0]), fl(r[1])))

    # --- best_path_compact (refactored) ---
    width = dtw_cc.wps_width(l1, l2, **kw)
    for psi_neg, keep_int in ((True, True), (True, False), (False, False)):
        wps = np.full((l1 + 1, width), -7.0, dtype=np.double)
        d = dtw_cc.warping_paths_compact(wps, s1, s2, psi_neg, keep_int, **kw)
        before = wps.copy()
        bp = dtw_cc.best_path_compact(wps, l1, l2, **kw)
        rec.append(('bpc', psi_neg, keep_int, fl(d), typed(bp), bool((before == wps).all() or
                                                                     np.array_equal(before, wps, equal_nan=True))))
    # a compact buffer not produced by the kernel (random finite costs)
    wps = np.array([[rng.choice([0.0, 1.0, 2.5, rng.uniform(0, 9)]) for _ in range(width)]
                    for _ in range(l1 + 1)], dtype=np.double)
    rec.append(('bpc.rand', typed(dtw_cc.best_path_compact(wps, l1, l2, **kw))))

    # --- controls (not refactored) ---
    ndim = rng.choice([1, 2, 3])
    n1 = rnd_series(rng, l1, ndim)
    n2 = rnd_series(rng, l2, ndim)
    r = dtw_cc.warping_path_ndim(n1, n2, ndim, include_distance=True, **kw)
    rec.append(('wpn', typed(r[0]), fl(r[1])))
    akw = {k: v for k, v in kw.items() if k in ('window', 'penalty')}
    awidth = dtw_cc.wps_width(l1, l2, **akw)
    wa = np.full((l1 + 1, awidth), -7.0, dtype=np.double)
    dtw_cc.warping_paths_compact_affinity(wa, s1, s2, False, 1.0, 0.3, -0.5, 1.0, False, **akw)
    parts = dtw_cc.DTWWps(l1, l2, dtw_cc.DTWSettings(**akw))
    rs, cs = dtw_cc.wps_max(parts, wa, l1, l2)
    rec.append(('bpca', rs, cs, typed(dtw_cc.best_path_compact_affinity(wa, l1, l2, rs, cs, **akw))))
    results.append(rec)


def errors():
    """Argument errors must be raised the same way."""
    s = np.array([0., 1., 2.])
    e = np.array([], dtype=np.double)
    for args, kw in [((e, s), {}), ((s, e), {}), ((e, e), {}),
                     ((s, s), {'inner_dist': 'nope'}),
                     ((s.astype(np.float32), s), {}),
                     ((s, np.zeros((2, 2))), {}),
                     ((s,), {}), ((s, s, False, 3), {})]:
        try:
            r = dtw_cc.warping_path(*args, **kw)
            results.append(('err.wp', 'ok', repr(r)))
        except Exception as exc:
            results.append(('err.wp', type(exc).__name__, str(exc)))
    w = np.zeros((4, 4))
    for args, kw in [((np.zeros((0, 4)), 3, 3), {}), ((w, 3, 3), {'inner_dist': 'nope'}),
                     ((w.astype(np.float32), 3, 3), {}), ((w, 3), {}), ((w, 'a', 3), {}),
                     ((np.zeros(4), 3, 3), {})]:
        try:
            r = dtw_cc.best_path_compact(*args, **kw)
            results.append(('err.bpc', 'ok', repr(r)))
        except Exception as exc:
            results.append(('err.bpc', type(exc).__name__, str(exc)))


def larger(rng):
    for _ in range(150):
        l1 = rng.randint(7, 40)
        l2 = rng.randint(7, 40)
        window = rng.choice([None, None] + list(range(1, max(l1, l2) + 2)))
        kw = options(rng, l1, l2, window)
        s1 = rnd_series(rng, l1)
        s2 = rnd_series(rng, l2)
        r = dtw_cc.warping_path(s1, s2, include_distance=True, **kw)
        width = dtw_cc.wps_width(l1, l2, **kw)
        wps = np.full((l1 + 1, width), -7.0, dtype=np.double)
        dtw_cc.warping_paths_compact(wps, s1, s2, True, True, **kw)
        bp = dtw_cc.best_path_compact(wps, l1, l2, **kw)
        results.append(('large', l1, l2, sorted(kw.items()), typed(r[0]), fl(r[1]), typed(bp)))


def dba(rng):
    # Python DBA loop (use_c=False) still uses dtw_cc.warping_path when asked
    for it in range(40):
        n = rng.randint(2, 5)
        L = rng.randint(1, 8)
        window = rng.choice([None] + list(range(1, L + 2)))
        series = [np.array([rng.uniform(-2, 2) for _ in range(rng.randint(1, L))], dtype=np.double)
                  for _ in range(n)]
        kw = {}
        if window is not None:
            kw['window'] = window
        if rng.random() < 0.5:
            kw['penalty'] = 0.5
        c = series[rng.randrange(n)].copy()
        try:
            avg = dtw_barycenter.dba(series, c, use_c=True, **kw)
            results.append(('dba', n, L, sorted(kw.items()), arr(avg)))
        except Exception as exc:
            results.append(('dba', n, L, sorted(kw.items()), type(exc).__name__, str(exc)))


def main():
    rng = random.Random(424242)
    maxlen = 6
    for l1, l2 in itertools.product(range(1, maxlen + 1), repeat=2):
        for window in [None] + list(range(1, max(l1, l2) + 2)):
            for rep in range(8):
                one_config(rng, l1, l2, window)
    errors()
    larger(random.Random(5))
    dba(random.Random(6))
    h = hashlib.sha256(repr(results).encode('utf-8')).hexdigest()
    print('NRESULTS', len(results), file=sys.stderr)
    print('DIGEST', h)
    return 0


if __name__ == '__main__':
    sys.exit(main())
