#!/usr/bin/env python
"""Randomised bit-for-bit comparison for property C03 (early abandoning never changes a result).

Calls the public API (distance / distance_fast / warping_paths / warping_paths_fast /
distance_matrix / distance_matrix_fast, 1-D and n-D) on seeded random inputs over
windows / psi / penalties / max_step / inner distances / thresholds around the true
distance / pruning on-off, and prints one line `DIGEST <sha256>` over the exact
(hex-float / raw-bytes) representation of every result.

FOCUS selects which routines get the bulk of the cases (the refactored ones).
"""
import sys
import math
import random
import hashlib
import array

import numpy as np

from dtaidistance import dtw, dtw_ndim, ed

FOCUS = "c_wps"   # one of: "c_wps", "py_wps", "c_ndim"

N_CASES = {
    #            py_dist c_dist py_wps c_wps c_ndim py_ndim matrix
    "c_wps":    (150,    400,   150,   1500, 300,   40,     40),
    "py_wps":   (250,    400,   900,   500,  200,   40,     40),
    "c_ndim":   (150,    500,   150,   500,  1500,  80,     60),
}[FOCUS]

H = hashlib.sha256()
COUNT = [0]


def fx(v):
    """Exact textual form of a result."""
    if v is None:
        return "None"
    if isinstance(v, (float, np.floating)):
        return float(v).hex()
    if isinstance(v, np.ndarray):
        a = np.ascontiguousarray(v, dtype=np.double)
        return "nd" + repr(a.shape) + hashlib.sha256(a.tobytes()).hexdigest()
    if isinstance(v, array.array):
        return "arr" + hashlib.sha256(v.tobytes()).hexdigest()
    if isinstance(v, (tuple, list)):
        return "(" + ",".join(fx(x) for x in v) + ")"
    return repr(v)


def record(tag, fn):
    try:
        r = fx(fn())
    except Exception as exc:  # recorded, so that a change in raised errors is seen as well
        r = "EXC:" + type(exc).__name__ + ":" + str(exc)[:80]
    H.update((tag + "=" + r + "\n").encode())
    COUNT[0] += 1
    return r


def gen_series(rng, n, kind, base=None):
    if kind == 0:      # gaussian
        return [rng.gauss(0, 1) for _ in range(n)]
    if kind == 1:      # small integers -> many ties, DTW often equals ED
        return [float(rng.randint(-2, 2)) for _ in range(n)]
    if kind == 2:      # random walk
        v, out = 0.0, []
        for _ in range(n):
            v += rng.uniform(-1, 1)
            out.append(v)
        return out
    if kind == 3 and base is not None and len(base) == n:   # shifted copy: DTW == ED frequently
        off = rng.choice([0.0, 0.25, 0.5, 1.0])
        return [b + off for b in base]
    if kind == 4 and base is not None and len(base) == n:   # monotone pair
        return [b * 1.5 for b in base]
    return [round(rng.uniform(-3, 3), 1) for _ in range(n)]


def gen_pair(rng, maxlen=18):
    l1 = rng.randint(1, maxlen)
    l2 = l1 if rng.random() < 0.45 else rng.randint(1, maxlen)
    k1 = rng.randint(0, 2) if rng.random() < 0.8 else 5
    s1 = gen_series(rng, l1, k1)
    if k1 == 2 and rng.random() < 0.3:
        s1 = sorted(s1)
    k2 = rng.choice([0, 1, 2, 3, 3, 4, 5])
    if k2 in (0, 1, 2, 5) and rng.random() < 0.5:
        k2 = k1
    s2 = gen_series(rng, l2, k2, base=s1)
    return s1, s2


def gen_opts(rng, l1, l2, allow_psi_tuple=True):
    o = {}
    w = rng.choice([None, None, 1, 2, 3, 5, 8, 30])
    if w is not None:
        o['window'] = w
    m = min(l1, l2)
    # psi-relaxation is kept within the band (psi <= window): a wider relaxation makes the compact
    # C kernel look at cells outside its two-row buffer, which is outside the scope of this comparison
    pmax = min(3, m - 1) if w is None else min(3, m - 1, w)
    pc = rng.random()
    if pc < 0.25 and m > 1:
        o['psi'] = rng.randint(0, pmax)
    elif pc < 0.40 and m > 1 and allow_psi_tuple:
        o['psi'] = tuple(rng.randint(0, pmax) for _ in range(4))
    p = rng.choice([None, None, None, 0.1, 0.5, 1.0, 2.5])
    if p is not None:
        o['penalty'] = p
    ms = rng.choice([None, None, None, None, None, None, 0.5, 1.5, 3.0, 6.0])
    if ms is not None:
        o['max_step'] = ms
    mld = rng.choice([None, None, None, None, None, 2, 6])
    if mld is not None:
        o['max_length_diff'] = mld
    if rng.random() < 0.3:
        o['inner_dist'] = 'euclidean'
    return o


def thresholds(rng, base):
    """Thresholds around the unbounded result (base may be inf)."""
    out = [None]
    if base is not None and isinstance(base, float) and math.isfinite(base) and base > 0:
        out += [base * 0.5, base * 0.9, base * 0.999, base, base * 1.001, base * 1.1, base * 3.0]
    else:
        out += [0.2, 1.0, 5.0]
    out.append(rng.choice([0.05, 0.3, 2.0, 10.0]))
    return out


def variants(rng, fnbase):
    """Yield (tag, extra-kwargs): unbounded, pruning, and a sample of thresholds."""
    try:
        base = fnbase()
        if isinstance(base, tuple):
            base = base[0]
        base = float(base)
    except Exception:
        base = None
    ths = thresholds(rng, base)
    chosen = [None] + rng.sample(ths[1:], 3)
    for md in chosen:
        for pr in (False, True):
            kw = {}
            if md is not None:
                kw['max_dist'] = md
            if pr:
                kw['use_pruning'] = True
            yield kw


def tagof(prefix, n, o):
    return "%s#%d:%s" % (prefix, n, sorted((k, repr(v)) for k, v in o.items()))


def run_py_distance(rng, n):
    for c in range(n):
        s1, s2 = gen_pair(rng, 14)
        o = gen_opts(rng, len(s1), len(s2))
        for kw in variants(rng, lambda: dtw.distance(s1, s2, **o)):
            oo = dict(o, **kw)
            record(tagof("pyd", c, oo), lambda: dtw.distance(s1, s2, **oo))
        if c % 7 == 0:
            record(tagof("pyd-ub", c, o), lambda: dtw.distance(s1, s2, only_ub=True, **o))


def run_c_distance(rng, n):
    for c in range(n):
        s1, s2 = gen_pair(rng, 20)
        a1, a2 = np.array(s1, dtype=np.double), np.array(s2, dtype=np.double)
        o = gen_opts(rng, len(s1), len(s2))
        for kw in variants(rng, lambda: dtw.distance_fast(a1, a2, **o)):
            oo = dict(o, **kw)
            record(tagof("cd", c, oo), lambda: dtw.distance_fast(a1, a2, **oo))
        if c % 7 == 0:
            record(tagof("cd-ub", c, o), lambda: dtw.distance_fast(a1, a2, only_ub=True, **o))
            record(tagof("cd-usec", c, o), lambda: dtw.distance(a1, a2, use_c=True, use_pruning=True, **o))
            record("ed-py#%d" % c, lambda: ed.distance(s1, s2) if len(s1) == len(s2) else dtw.ub_euclidean(s1, s2))
            record("ed-c#%d" % c, lambda: ed.distance_fast(a1, a2))


def run_py_wps(rng, n):
    for c in range(n):
        s1, s2 = gen_pair(rng, 12)
        a1, a2 = np.array(s1, dtype=np.double), np.array(s2, dtype=np.double)
        o = gen_opts(rng, len(s1), len(s2))
        extra = {}
        if rng.random() < 0.3:
            extra['psi_neg'] = False
        if rng.random() < 0.3:
            extra['keep_int_repr'] = True
        for kw in variants(rng, lambda: dtw.warping_paths(a1, a2, **o)):
            oo = dict(o, **kw)
            oo.update(extra)
            record(tagof("pyw", c, oo), lambda: dtw.warping_paths(a1, a2, **oo))
        if c % 5 == 0:
            # plain python lists as input as well
            record(tagof("pyw-list", c, o), lambda: dtw.warping_paths(s1, s2, use_pruning=True, **o))
            record(tagof("pywp", c, o), lambda: dtw.warping_path(s1, s2, include_distance=True, use_pruning=True, **o))


def c_wps_on_junk(a1, a2, oo):
    """dtw_cc.warping_paths / warping_paths_compact on a matrix pre-filled with 7.5 instead of inf."""
    from dtaidistance import dtw_cc
    oo = dict(oo)
    psi_neg = oo.pop('psi_neg', True)
    keep_int_repr = oo.pop('keep_int_repr', False)
    compact = oo.pop('compact', False)
    st = dtw.DTWSettings.for_dtw(a1, a2, **oo)
    if compact:
        width = dtw_cc.wps_width(len(a1), len(a2), **st.c_kwargs())
        mat = np.full((len(a1) + 1, width), 7.5)
        d = dtw_cc.warping_paths_compact(mat, a1, a2, psi_neg, keep_int_repr, **st.c_kwargs())
    else:
        mat = np.full((len(a1) + 1, len(a2) + 1), 7.5)
        d = dtw_cc.warping_paths(mat, a1, a2, psi_neg, keep_int_repr, **st.c_kwargs())
    return d, mat


def run_c_wps(rng, n):
    for c in range(n):
        s1, s2 = gen_pair(rng, 20)
        a1, a2 = np.array(s1, dtype=np.double), np.array(s2, dtype=np.double)
        o = gen_opts(rng, len(s1), len(s2))
        extra = {}
        if rng.random() < 0.3:
            extra['psi_neg'] = False
        if rng.random() < 0.3:
            extra['keep_int_repr'] = True
        compact = rng.random() < 0.3
        if compact:
            extra['compact'] = True
        for kw in variants(rng, lambda: dtw.warping_paths_fast(a1, a2, **o)):
            oo = dict(o, **kw)
            oo.update(extra)
            record(tagof("cw", c, oo), lambda: dtw.warping_paths_fast(a1, a2, **oo))
            if c % 2 == 0:
                # the C kernel has to write every cell itself: the matrix handed over is pre-filled with junk
                record(tagof("cw-junk", c, oo), lambda: c_wps_on_junk(a1, a2, oo))
            if c % 3 == 0:
                # best path on a matrix that the C side allocates itself (malloc, not pre-filled)
                po = {k: v for k, v in oo.items() if k not in ('psi_neg', 'keep_int_repr', 'compact')}
                record(tagof("cwp", c, po), lambda: dtw.warping_path_fast(a1, a2, include_distance=True, **po))
        if c % 5 == 0:
            record(tagof("cw-usec", c, o), lambda: dtw.warping_paths(a1, a2, use_c=True, use_pruning=True, **o))


def gen_pair_ndim(rng, maxlen, ndim):
    s1, s2 = gen_pair(rng, maxlen)
    cols1, cols2 = [s1], [s2]
    for _ in range(ndim - 1):
        k = rng.choice([0, 1, 3])
        b1 = gen_series(rng, len(s1), rng.choice([0, 1, 2]))
        cols1.append(b1)
        cols2.append(gen_series(rng, len(s2), k if k != 3 or len(s1) == len(s2) else 0, base=b1))
    a1 = np.ascontiguousarray(np.array(cols1, dtype=np.double).T)
    a2 = np.ascontiguousarray(np.array(cols2, dtype=np.double).T)
    return a1, a2


def run_c_ndim(rng, n):
    for c in range(n):
        ndim = rng.choice([1, 2, 2, 3, 4])
        a1, a2 = gen_pair_ndim(rng, 18, ndim)
        o = gen_opts(rng, len(a1), len(a2))
        for kw in variants(rng, lambda: dtw_ndim.distance_fast(a1, a2, **o)):
            oo = dict(o, **kw)
            record(tagof("cnd%d" % ndim, c, oo), lambda: dtw_ndim.distance_fast(a1, a2, **oo))
        if c % 4 == 0:
            record(tagof("cnd-ub", c, o), lambda: dtw_ndim.distance_fast(a1, a2, only_ub=True, **o))
            oo = dict(o, use_pruning=True)
            record(tagof("cnw", c, oo), lambda: dtw_ndim.warping_paths_fast(a1, a2, **oo))
            record(tagof("cnd-generic", c, oo), lambda: dtw.distance_fast(a1, a2, use_ndim=True, **oo))


def run_py_ndim(rng, n):
    for c in range(n):
        ndim = rng.choice([2, 3])
        a1, a2 = gen_pair_ndim(rng, 10, ndim)
        o = gen_opts(rng, len(a1), len(a2))
        for kw in variants(rng, lambda: dtw_ndim.distance(a1, a2, **o)):
            oo = dict(o, **kw)
            record(tagof("pnd", c, oo), lambda: dtw_ndim.distance(a1, a2, **oo))
        oo = dict(o, use_pruning=True)
        record(tagof("pnw", c, oo), lambda: dtw_ndim.warping_paths(a1, a2, **oo))


def run_matrix(rng, n):
    for c in range(n):
        k = rng.randint(3, 6)
        equal = rng.random() < 0.5
        L = rng.randint(3, 12)
        series = []
        for _ in range(k):
            ln = L if equal else rng.randint(2, 12)
            kind = rng.choice([0, 1, 2, 5])
            series.append(np.array(gen_series(rng, ln, kind), dtype=np.double))
        o = gen_opts(rng, min(len(x) for x in series), min(len(x) for x in series), allow_psi_tuple=True)
        blk = None
        if rng.random() < 0.3:
            blk = ((0, rng.randint(1, k)), (rng.randint(0, 2), k))
        for md in (None, rng.choice([0.5, 1.5, 4.0])):
            for pr in (False, True):
                oo = dict(o)
                if md is not None:
                    oo['max_dist'] = md
                if pr:
                    oo['use_pruning'] = True
                record(tagof("mpy", c, oo) + repr(blk),
                       lambda: dtw.distance_matrix(series, block=blk, **oo))
                record(tagof("mc", c, oo) + repr(blk),
                       lambda: dtw.distance_matrix_fast(series, block=blk, parallel=False, **oo))
                if c % 4 == 0:
                    record(tagof("mcomp", c, oo) + repr(blk),
                           lambda: dtw.distance_matrix_fast(series, block=blk, parallel=True, compact=True, **oo))
        if c % 3 == 0:
            nd = 2
            lst = [np.ascontiguousarray(np.array([gen_series(rng, len(x), 0), list(x)]).T) for x in series]
            oo = dict(o, use_pruning=True)
            record(tagof("mnd-c", c, oo), lambda: dtw.distance_matrix(lst, use_c=True, use_ndim=True, parallel=False, **oo))
            record(tagof("mnd-py", c, oo), lambda: dtw_ndim.distance_matrix(lst, nd, **oo))


def main():
    rng = random.Random(20240303)
    n_pyd, n_cd, n_pyw, n_cw, n_cnd, n_pnd, n_mat = N_CASES
    run_py_distance(random.Random(rng.random()), n_pyd)
    run_c_distance(random.Random(rng.random()), n_cd)
    run_py_wps(random.Random(rng.random()), n_pyw)
    run_c_wps(random.Random(rng.random()), n_cw)
    run_c_ndim(random.Random(rng.random()), n_cnd)
    run_py_ndim(random.Random(rng.random()), n_pnd)
    run_matrix(random.Random(rng.random()), n_mat)
    sys.stderr.write("results recorded: %d (library: %s)\n" % (COUNT[0], dtw.__file__))
    print("DIGEST " + H.hexdigest())
    return 0


if __name__ == "__main__":
    sys.exit(main())
