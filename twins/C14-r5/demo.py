#!/usr/bin/env python
"""Randomised bit-for-bit comparison for the k-NN subsequence search (property C14).

Run with PYTHONPATH=<worktree>/src.  Prints `DIGEST <sha256>` of the repr of all results.
"""
import hashlib
import logging
import random
import sys

import numpy as np

from dtaidistance import dtw, dtw_ndim
from dtaidistance.subsequence.subsequencesearch import (
    SubsequenceSearch, subsequence_search, SSMatches)

logging.getLogger("be.kuleuven.dtai.distance").setLevel(logging.ERROR)

RESULTS = []


def f(x):
    """Exact, engine independent representation of a number."""
    if x is None:
        return None
    x = float(x)
    return x.hex()


def rec(tag, value):
    RESULTS.append((tag, value))


def guarded(fn):
    try:
        return fn()
    except Exception as exc:  # the kind of exception is part of the observable behaviour
        return ('EXC', type(exc).__name__, str(exc)[:120])


def rand_series(rng, n, kind):
    if kind == 0:      # few distinct integer values: many ties
        return np.array([float(rng.randint(-2, 2)) for _ in range(n)])
    if kind == 1:      # coarse grid
        return np.array([rng.randint(-8, 8) / 4.0 for _ in range(n)])
    if kind == 2:      # random walk
        v, out = 0.0, []
        for _ in range(n):
            v += rng.gauss(0, 1)
            out.append(v)
        return np.array(out)
    return np.array([rng.uniform(-3, 3) for _ in range(n)])


def rand_options(rng, lq, use_c, allow_psi=True, mild=False):
    o = {}
    r = rng.random()
    if r < 0.6:
        o['window'] = rng.randint(1, lq + 2)
    if rng.random() < 0.35:
        o['penalty'] = rng.choice([0.1, 0.5, 1, 2.5])
    if rng.random() < (0.1 if mild else 0.25):
        o['max_step'] = rng.choice([2.0, 4.0, 6.0] if mild else [0.5, 1.0, 2.0, 4.0])
    if rng.random() < (0.1 if mild else 0.2):
        o['max_length_diff'] = rng.randint(1 if mild else 0, 3)
    if rng.random() < 0.25:
        o['use_pruning'] = True
    if rng.random() < 0.3:
        o['inner_dist'] = rng.choice(['euclidean', 'squared euclidean'])
    # psi together with a narrow window makes the C kernel read cells outside the band
    # (uninitialised memory, non-deterministic already in the original) -> only without window
    if allow_psi and 'window' not in o and rng.random() < 0.3:
        o['psi'] = rng.choice([1, 2, (1, 0, 0, 1), (0, 2, 1, 0)])
    if rng.random() < (0.12 if mild else 0.25):
        o['max_dist'] = rng.choice([2.0, 4.0, 8.0] if mild else [0.5, 1.5, 3.0, 6.0])
    return o


def matches_repr(ms):
    if isinstance(ms, tuple) and ms and ms[0] == 'EXC':
        return ms
    out = []
    for ki in range(len(ms)):   # fewer than k matches may exist (max_dist): record each one separately
        m = ms[ki]
        out.append(guarded(lambda: (int(m.idx), f(m.distance), f(m.value), str(m))))
    out.append(guarded(lambda: [int(m.idx) for m in ms]))
    return (len(ms), out, guarded(lambda: str(ms)))


def kb_repr(kb):
    if isinstance(kb, tuple) and kb and kb[0] == 'EXC':
        return kb
    return [(f(d), int(i)) for d, i in kb]


def state_repr(ss):
    return (ss.k,
            None if ss.kbest_distances is None else kb_repr(ss.kbest_distances),
            None if ss.distances is None else [f(v) for v in ss.distances],
            f(ss.max_dist), f(ss.dists_options.get('max_dist')),
            ss.dists_options.get('use_c', 'unset'), ss.use_lb)


# ---------------------------------------------------------------- part 1: the search object
def part_search(seed, rounds):
    rng = random.Random(seed)
    for it in range(rounds):
        ndim = rng.random() < 0.2
        lq = rng.randint(2, 9)
        n = rng.randint(1, 9)
        kind = rng.randint(0, 3)
        equal_len = rng.random() < 0.6
        if ndim:
            d = rng.randint(2, 3)
            query = np.array([[float(rng.randint(-2, 2)) if kind == 0 else rng.uniform(-2, 2)
                               for _ in range(d)] for _ in range(lq)])
            series = []
            for _ in range(n):
                ls = lq if equal_len else max(1, lq + rng.randint(-2, 2))
                series.append(np.array([[float(rng.randint(-2, 2)) if kind == 0 else rng.uniform(-2, 2)
                                         for _ in range(d)] for _ in range(ls)]))
        else:
            query = rand_series(rng, lq, kind)
            series = []
            for _ in range(n):
                ls = lq if equal_len else max(1, lq + rng.randint(-3, 3))
                series.append(rand_series(rng, ls, kind))
        # duplicates / ties
        for _ in range(rng.randint(0, 3)):
            src = rng.randrange(len(series))
            series.insert(rng.randrange(len(series) + 1), series[src].copy())
        if rng.random() < 0.15:
            series[rng.randrange(len(series))] = query.copy() \
                if (equal_len or True) else series[0]
        n = len(series)
        if equal_len and rng.random() < 0.3 and all(len(s) == lq for s in series):
            series_arg = np.array(series)
        else:
            series_arg = series
        for use_c in (False, True):
            for use_lb in (False, True):
                opts = rand_options(rng, lq, use_c, allow_psi=not ndim, mild=True)
                max_dist = rng.choice([None, None, None, None, None, 3.0, 5.0, 8.0])
                max_value = rng.choice([None, None, None, None, None, 0.6, 1.2])
                keep_all = rng.random() < 0.25
                use_c_arg = rng.choice([use_c, use_c, None]) if not use_c else True
                tag = ('search', seed, it, use_c, use_lb, ndim, keep_all,
                       repr(sorted(opts.items(), key=lambda t: t[0])), max_dist, max_value, use_c_arg)

                def mk():
                    if keep_all or rng.random() < 0.5:
                        return SubsequenceSearch(query, series_arg, dists_options=opts, use_lb=use_lb,
                                                 keep_all_distances=keep_all, max_dist=max_dist,
                                                 max_value=max_value, use_c=use_c_arg)
                    return subsequence_search(query, series_arg, dists_options=opts, use_lb=use_lb,
                                              max_dist=max_dist, max_value=max_value, use_c=use_c_arg)
                ss = guarded(mk)
                if isinstance(ss, tuple):
                    rec(tag, ss)
                    continue
                # a history of calls on one object
                hist = []
                for step in range(rng.randint(1, 6)):
                    op = rng.random()
                    if op < 0.5:
                        k = rng.choice(list(range(1, n + 2)) + [None])
                        r = guarded(lambda: ss.kbest_matches(k=k))
                        hist.append(('kbest', k, matches_repr(r)))
                        if not isinstance(r, tuple) and len(r) > 0:
                            sl = guarded(lambda: [(int(m.idx), f(m.distance)) for m in r[0:2]])
                            hist.append(('slice', sl))
                    elif op < 0.65:
                        r = guarded(lambda: ss.best_match())
                        if isinstance(r, tuple):
                            hist.append(('best', r))
                        else:
                            hist.append(('best', guarded(lambda: (int(r.idx), f(r.distance), f(r.value)))))
                    elif op < 0.8:
                        k = rng.choice(list(range(1, n + 2)) + [None])
                        r = guarded(lambda: ss.align(k=k))
                        hist.append(('align', k, kb_repr(r)))
                    elif op < 0.9:
                        k = rng.choice(list(range(1, n + 2)))
                        r = guarded(lambda: ss.kbest_matches_fast(k=k))
                        hist.append(('kbest_fast', k, matches_repr(r)))
                    elif op < 0.95:
                        i = rng.randint(0, n)
                        r = guarded(lambda: ss.get_ith_value(i))
                        hist.append(('ith', i, r if isinstance(r, tuple) and r and r[0] == 'EXC'
                                     else (f(r[0]), int(r[1]))))
                    else:
                        ss.reset()
                        hist.append(('reset',))
                    hist.append(('state', state_repr(ss)))
                rec(tag, hist)


# ---------------------------------------------------------------- part 2: bound and distance directly
def part_direct(seed, rounds):
    rng = random.Random(seed)
    for it in range(rounds):
        kind = rng.randint(0, 3)
        l1 = rng.randint(1, 14)
        l2 = rng.randint(1, 14) if rng.random() < 0.6 else l1
        s1 = rand_series(rng, l1, kind)
        s2 = rand_series(rng, l2, kind)
        for use_c in (False, True):
            opts = rand_options(rng, max(l1, l2), use_c)
            if 'psi' in opts:
                p = opts['psi']
                mx = max(p) if isinstance(p, tuple) else p
                if mx > min(l1, l2):
                    del opts['psi']
            okey = repr(sorted(opts.items(), key=lambda t: t[0]))
            lbopts = {k: v for k, v in opts.items()}
            r = guarded(lambda: f(dtw.lb_keogh(s1, s2, use_c=use_c, **lbopts)))
            rec(('lb', seed, it, use_c, okey), r)
            if not use_c:
                r = guarded(lambda: f(dtw.lb_keogh(list(s1), list(s2), **lbopts)))
                rec(('lb_list', seed, it, okey), r)
            r = guarded(lambda: f(dtw.distance(s1, s2, use_c=use_c, **opts)))
            rec(('dist', seed, it, use_c, okey), r)
            r = guarded(lambda: f(dtw.distance(s2, s1, use_c=use_c, **opts)))
            rec(('dist_rev', seed, it, use_c, okey), r)
            if rng.random() < 0.3:
                r = guarded(lambda: f(dtw.distance(s1, s2, use_c=use_c, only_ub=True, **opts)))
                rec(('dist_ub', seed, it, use_c, okey), r)
            if use_c:
                r = guarded(lambda: f(dtw.distance_fast(s1, s2, **opts)))
                rec(('dist_fast', seed, it, okey), r)
        # longer series through the C engine, narrow windows (exercises the compact band)
        if it % 5 == 0:
            la = rng.randint(20, 60)
            lb = max(1, la + rng.randint(-8, 8))
            a = rand_series(rng, la, kind)
            b = rand_series(rng, lb, kind)
            for w in (1, 2, 5, None):
                for idist in ('squared euclidean', 'euclidean'):
                    o = {'inner_dist': idist}
                    if w is not None:
                        o['window'] = w
                    if rng.random() < 0.5:
                        o['max_dist'] = rng.choice([2.0, 5.0, 10.0])
                    if w is None and rng.random() < 0.5:
                        o['psi'] = rng.choice([1, 3, (2, 0, 0, 2)])
                    if rng.random() < 0.3:
                        o['penalty'] = 0.5
                    okey = repr(sorted(o.items(), key=lambda t: t[0]))
                    rec(('distC_long', seed, it, okey), guarded(lambda: f(dtw.distance(a, b, use_c=True, **o))))
                    rec(('distP_long', seed, it, okey), guarded(lambda: f(dtw.distance(a, b, **o))))
                    o.pop('psi', None)
                    rec(('lbC_long', seed, it, okey), guarded(lambda: f(dtw.lb_keogh(a, b, use_c=True, **o))))
                    rec(('lbP_long', seed, it, okey), guarded(lambda: f(dtw.lb_keogh(a, b, **o))))


# ---------------------------------------------------------------- focus parts (one per refactoring)
def part_c_heavy(seed, rounds):
    """C kernels dtw_distance / dtw_distance_euclidean: many shapes of the compact band."""
    rng = random.Random(seed)
    for it in range(rounds):
        kind = rng.randint(0, 3)
        l1 = rng.randint(1, 70)
        l2 = l1 if rng.random() < 0.4 else max(1, l1 + rng.randint(-12, 12))
        a = rand_series(rng, l1, kind)
        b = rand_series(rng, l2, kind)
        o = {}
        if rng.random() < 0.75:
            o['window'] = rng.choice([1, 2, 3, 5, 8, 13, max(l1, l2), max(l1, l2) + 3])
        if rng.random() < 0.5:
            o['inner_dist'] = 'euclidean'
        if rng.random() < 0.4:
            o['max_dist'] = rng.choice([1.0, 3.0, 6.0, 12.0, 30.0])
        if rng.random() < 0.3:
            o['penalty'] = rng.choice([0.1, 1, 2.0])
        if rng.random() < 0.3:
            o['max_step'] = rng.choice([1.0, 2.0, 5.0])
        if rng.random() < 0.2:
            o['max_length_diff'] = rng.randint(0, 12)
        if rng.random() < 0.3:
            o['use_pruning'] = True
        if 'window' not in o and rng.random() < 0.3 and min(l1, l2) >= 3:
            o['psi'] = rng.choice([1, 2, 3, (1, 2, 0, 0), (0, 0, 2, 1)])
        okey = repr(sorted(o.items(), key=lambda t: t[0]))
        rec(('c_heavy', seed, it, l1, l2, okey), (
            guarded(lambda: f(dtw.distance(a, b, use_c=True, **o))),
            guarded(lambda: f(dtw.distance(b, a, use_c=True, **o))),
            guarded(lambda: f(dtw.distance_fast(a, b, only_ub=True, **o)))))
    # k-NN searches through the C engine on longer windows of one long series
    for it in range(rounds // 40):
        kind = rng.randint(1, 3)
        long_series = rand_series(rng, rng.randint(120, 260), kind)
        lq = rng.randint(10, 30)
        step = rng.randint(1, 7)
        windows = [long_series[i:i + lq] for i in range(0, len(long_series) - lq, step)]
        start = rng.randrange(len(long_series) - lq)
        query = long_series[start:start + lq] + np.array([rng.gauss(0, 0.3) for _ in range(lq)])
        for use_lb in (True, False):
            o = {}
            if rng.random() < 0.7:
                o['window'] = rng.randint(1, lq)
            if rng.random() < 0.4:
                o['inner_dist'] = 'euclidean'
            if rng.random() < 0.3:
                o['penalty'] = 0.5
            ss = subsequence_search(query, windows, dists_options=o, use_lb=use_lb, use_c=True,
                                    max_value=rng.choice([None, None, 0.5, 1.0]))
            hist = []
            for k in [rng.choice([1, 2, 3, 5, 9, len(windows), None]) for _ in range(3)]:
                hist.append((k, matches_repr(guarded(lambda: ss.kbest_matches(k=k))), state_repr(ss)))
            rec(('c_search', seed, it, use_lb, repr(sorted(o.items()))), hist)


def part_py_heavy(seed, rounds):
    """Pure Python dtw.distance / dtw.lb_keogh, lists, arrays and numpy input."""
    import array
    rng = random.Random(seed)
    for it in range(rounds):
        kind = rng.randint(0, 3)
        l1 = rng.randint(1, 18)
        l2 = l1 if rng.random() < 0.4 else max(1, l1 + rng.randint(-6, 6))
        a = rand_series(rng, l1, kind)
        b = rand_series(rng, l2, kind)
        conv = rng.choice([lambda x: x, list, lambda x: array.array('d', x)])
        a2, b2 = conv(a), conv(b)
        o = rand_options(rng, max(l1, l2), False, allow_psi=False)
        if rng.random() < 0.3 and min(l1, l2) >= 3:
            # the Python engine is deterministic also for psi together with a window
            o['psi'] = rng.choice([1, 2, 3, (1, 2, 0, 0), (0, 0, 2, 1), (2, 0, 1, 1)])
        okey = repr(sorted(o.items(), key=lambda t: t[0]))
        rec(('py_heavy', seed, it, l1, l2, okey), (
            guarded(lambda: f(dtw.distance(a2, b2, **o))),
            guarded(lambda: f(dtw.distance(b2, a2, **o))),
            guarded(lambda: f(dtw.lb_keogh(a2, b2, **o))),
            guarded(lambda: f(dtw.lb_keogh(b2, a2, **o))),
            guarded(lambda: f(dtw.distance(a2, b2, only_ub=True, **o)) if l1 == l2 else None)))


FOCUS = 'r5'


def main():
    for seed in (14, 1414, 20260929):
        part_search(seed, 140)
    for seed in (3, 33):
        part_direct(seed, 300)
    if FOCUS in ('r3', 'all'):
        for seed in (5, 55, 555, 5555):
            part_search(seed, 140)
    if FOCUS in ('r4', 'all'):
        for seed in (4, 44):
            part_c_heavy(seed, 1500)
    if FOCUS in ('r5', 'all'):
        for seed in (6, 66):
            part_py_heavy(seed, 700)
    blob = repr(RESULTS).encode('utf-8')
    sys.stderr.write('results: %d records, %d bytes, %d exceptions\n' % (
        len(RESULTS), len(blob), blob.count(b"'EXC'")))
    import os
    if os.environ.get('DEMO_DUMP'):
        with open(os.environ['DEMO_DUMP'], 'w') as fh:
            for r in RESULTS:
                fh.write(repr(r) + '\n')
    print('DIGEST ' + hashlib.sha256(blob).hexdigest())
    return 0


if __name__ == '__main__':
    sys.exit(main())
