#!/usr/bin/env python
"""Randomised bit-for-bit comparison for property C11 (multivariate DTW, both engines).

Calls the public multivariate (and, for d = 1, the univariate) DTW API of dtaidistance
on seeded random inputs and option combinations and prints one line
    DIGEST <sha256 of the repr of all results>
Floats are encoded with float.hex() and arrays by shape + raw bytes so that the
digest only matches when every result is bit-for-bit identical.

Run with PYTHONPATH=<worktree>/src.
"""
import hashlib
import sys
import warnings
import logging

import numpy as np

from dtaidistance import dtw, dtw_ndim, ed, innerdistance
try:
    from dtaidistance import ed_cc
except ImportError:  # pragma: no cover
    ed_cc = None

warnings.filterwarnings("ignore")
logging.getLogger("be.kuleuven.dtai.distance").setLevel(logging.ERROR)

# Which engines / routines get the most weight differs per refactoring, the
# coverage of the quantifier (d in 1..4, all settings, both containers, both
# engines) is the same.
FOCUS = "py-warping-paths"   # r5: dtw.py warping_paths (pure Python full cost matrix)
N_PAIR_TRIALS = 130      # per dimension
N_MATRIX_TRIALS = 14     # per dimension


def enc(x):
    """Lossless, deterministic encoding of a result."""
    if x is None or isinstance(x, (bool, str)):
        return x
    if isinstance(x, (int, np.integer)):
        return int(x)
    if isinstance(x, (float, np.floating)):
        return float(x).hex()
    if isinstance(x, np.ndarray):
        a = np.ascontiguousarray(x)
        return ("nd", str(a.dtype), a.shape, hashlib.sha256(a.tobytes()).hexdigest())
    if isinstance(x, (list, tuple)):
        return tuple(enc(v) for v in x)
    try:
        import array as _array
        if isinstance(x, _array.array):
            return ("arr", x.typecode, tuple(enc(v) for v in x))
    except ImportError:  # pragma: no cover
        pass
    return ("obj", type(x).__name__, repr(x))


def call(fn, *args, **kwargs):
    try:
        return enc(fn(*args, **kwargs))
    except BaseException as exc:  # noqa: record the kind of failure, never crash
        if isinstance(exc, (KeyboardInterrupt, SystemExit)):
            raise
        return ("EXC", type(exc).__name__)


def rand_series(rng, length, d, style):
    if style == 0:
        a = rng.randn(length, d)
    elif style == 1:      # few distinct values -> many ties in the DP
        a = rng.randint(-2, 3, size=(length, d)).astype(np.double)
    elif style == 2:      # coarse grid
        a = np.round(rng.randn(length, d), 1)
    else:                 # smooth, correlated dimensions
        t = np.linspace(0, 3, length)[:, None]
        a = np.sin(t * (1 + np.arange(d))[None, :] + rng.rand()) + 0.1 * rng.randn(length, d)
    return np.ascontiguousarray(a, dtype=np.double)


WINDOWS = [None, None, 1, 2, 3, 5, 25]
MAX_DISTS = [None, None, 0.7, 2.5, 6.0]
MAX_STEPS = [None, None, 0.8, 2.0, 4.0]
MAX_LENGTH_DIFFS = [None, None, 0, 2, 6]
PENALTIES = [None, None, 0.1, 1.0]
PSIS = [None, None, 0, 1, 2, (1, 0, 2, 1), (0, 2, 0, 1), (2, 2, 0, 0)]
INNER = ["squared euclidean", "euclidean"]


def pick(rng, seq):
    return seq[rng.randint(len(seq))]


def rand_settings(rng):
    return dict(window=pick(rng, WINDOWS), max_dist=pick(rng, MAX_DISTS),
                max_step=pick(rng, MAX_STEPS), max_length_diff=pick(rng, MAX_LENGTH_DIFFS),
                penalty=pick(rng, PENALTIES), psi=pick(rng, PSIS),
                use_pruning=bool(rng.randint(2)), inner_dist=pick(rng, INNER))


def c_safe(kw):
    """Settings handed to the C engine.

    The C kernels read outside their two-row buffer when psi-relaxation is combined
    with a narrow window (a pre-existing problem that is not touched here); the value
    they then return depends on stale heap contents and is not reproducible between
    runs.  For the C engine psi is therefore only combined with an unrestricted window.
    The Python engine always gets the unrestricted combination.
    """
    kw = dict(kw)
    if kw.get("psi") and kw.get("window") is not None:
        kw["window"] = None
    return kw


def pair_cases(rng, d, out):
    for trial in range(N_PAIR_TRIALS):
        l1 = int(rng.randint(3, 12))
        l2 = l1 if rng.rand() < 0.3 else int(rng.randint(3, 12))
        style = int(rng.randint(4))
        s1 = rand_series(rng, l1, d, style)
        s2 = rand_series(rng, l2, d, style)
        if trial < 6:
            kw = dict(inner_dist=INNER[trial % 2])          # defaults first
        else:
            kw = rand_settings(rng)
        only_ub = bool(rng.rand() < 0.15)
        psi_neg = bool(rng.randint(2))
        keep_int_repr = bool(rng.randint(2))
        tag = ("pair", d, trial, l1, l2, style, repr(sorted(kw.items())), only_ub, psi_neg, keep_int_repr)
        res = [tag]
        idist = kw["inner_dist"]
        kwc = c_safe(kw)

        # --- upper bound, both engines
        res.append(call(dtw_ndim.ub_euclidean, s1, s2, inner_dist=idist))
        res.append(call(dtw.ub_euclidean, s1, s2, inner_dist=idist, use_ndim=True))
        if ed_cc is not None:
            res.append(call(ed_cc.distance_ndim, s1, s2, inner_dist=innerdistance.to_c(idist)))

        # --- distance, both engines
        res.append(call(dtw_ndim.distance, s1, s2, only_ub=only_ub, **kw))
        res.append(call(dtw_ndim.distance, s1, s2, only_ub=only_ub, use_c=True, **kwc))
        res.append(call(dtw_ndim.distance_fast, s1, s2, only_ub=only_ub, **kwc))
        res.append(call(dtw.distance, s1, s2, only_ub=only_ub, use_ndim=True, **kw))
        # lists of lists / lists of arrays as input for the Python engine
        res.append(call(dtw_ndim.distance, [row for row in s1], [row for row in s2], **kw))

        # --- full cost matrix, both engines
        res.append(call(dtw_ndim.warping_paths, s1, s2, psi_neg=psi_neg, keep_int_repr=keep_int_repr, **kw))
        res.append(call(dtw_ndim.warping_paths_fast, s1, s2, psi_neg=psi_neg, keep_int_repr=keep_int_repr, **kwc))
        res.append(call(dtw_ndim.warping_paths, s1, s2, psi_neg=psi_neg, keep_int_repr=keep_int_repr,
                        use_c=True, **kwc))
        res.append(call(dtw_ndim.warping_paths_fast, s1, s2, psi_neg=psi_neg, keep_int_repr=keep_int_repr,
                        compact=True, **kwc))

        # --- warping path, both engines
        res.append(call(dtw_ndim.warping_path, s1, s2, **kw))
        res.append(call(dtw_ndim.warping_path, s1, s2, include_distance=True, **kw))
        res.append(call(dtw_ndim.warping_path, s1, s2, include_distance=True, use_c=True, **kwc))

        # --- extra option combinations on the routines this refactoring touches
        for extra in range(3):
            kw2 = rand_settings(rng)
            kw2c = c_safe(kw2)
            res.append(repr(sorted(kw2.items())))
            if FOCUS == "py-distance":
                res.append(call(dtw_ndim.distance, s1, s2, **kw2))
                res.append(call(dtw.distance, s1, s2, use_ndim=True, only_ub=(extra == 2), **kw2))
                if d == 1:
                    res.append(call(dtw.distance, s1[:, 0].copy(), s2[:, 0].copy(), **kw2))
            elif FOCUS == "py-warping-paths":
                res.append(call(dtw_ndim.warping_paths, s1, s2, psi_neg=(extra != 1),
                                keep_int_repr=(extra == 2), **kw2))
                res.append(call(dtw_ndim.warping_path, s1, s2, include_distance=True, **kw2))
                if d == 1:
                    res.append(call(dtw.warping_paths, s1[:, 0].copy(), s2[:, 0].copy(), psi_neg=(extra != 1),
                                    keep_int_repr=(extra == 2), **kw2))
            else:
                res.append(call(dtw_ndim.distance_fast, s1, s2, only_ub=(extra == 2), **kw2c))
                res.append(call(dtw_ndim.warping_paths_fast, s1, s2, psi_neg=(extra != 1),
                                keep_int_repr=(extra == 2), **kw2c))
                res.append(call(dtw_ndim.warping_paths_fast, s1, s2, compact=True, **kw2c))
                if d == 1:
                    res.append(call(dtw.warping_paths_fast, s1[:, 0].copy(), s2[:, 0].copy(),
                                    psi_neg=(extra != 1), keep_int_repr=(extra == 2), **kw2c))

        # --- d == 1: the univariate routines on the flattened series
        if d == 1:
            f1 = np.ascontiguousarray(s1[:, 0])
            f2 = np.ascontiguousarray(s2[:, 0])
            res.append(call(dtw.distance, f1, f2, only_ub=only_ub, **kw))
            res.append(call(dtw.distance, f1, f2, only_ub=only_ub, use_c=True, **kwc))
            res.append(call(dtw.distance, list(f1), list(f2), **kw))
            res.append(call(dtw.distance_fast, f1, f2, only_ub=only_ub, **kwc))
            res.append(call(dtw.warping_paths, f1, f2, psi_neg=psi_neg, keep_int_repr=keep_int_repr, **kw))
            res.append(call(dtw.warping_paths_fast, f1, f2, psi_neg=psi_neg, keep_int_repr=keep_int_repr, **kwc))
            res.append(call(dtw.warping_path, f1, f2, include_distance=True, **kw))
            res.append(call(dtw.warping_path_fast, f1, f2, include_distance=True, **kwc))
            res.append(call(dtw.ub_euclidean, f1, f2, inner_dist=idist))
            res.append(call(ed.distance, f1, f2, inner_dist=idist))
        out.append(tuple(res))


def matrix_cases(rng, d, out):
    for trial in range(N_MATRIX_TRIALS):
        n = int(rng.randint(3, 6))
        style = int(rng.randint(4))
        if trial < 2:
            kw = dict(inner_dist=INNER[trial % 2])
        else:
            kw = rand_settings(rng)
        kw_nopr = dict(kw)
        use_pruning = kw_nopr.pop("use_pruning", False)
        kwc = c_safe(kw)
        kwc_nopr = c_safe(kw_nopr)
        compact = bool(rng.randint(2))
        only_triu = bool(rng.randint(2))
        block = pick(rng, [None, None, ((0, 2), (1, n)), ((1, n), (0, n - 1)), ((0, n), (0, n))])
        # container 1: list of 2-D arrays of different lengths
        lst = [rand_series(rng, int(rng.randint(3, 10)), d, style) for _ in range(n)]
        # container 2: one 3-D array (equal lengths)
        length = int(rng.randint(3, 10))
        cube = np.ascontiguousarray(np.stack([rand_series(rng, length, d, style) for _ in range(n)]))
        tag = ("matrix", d, trial, n, style, repr(sorted(kw.items())), compact, only_triu, repr(block))
        res = [tag]
        # container 3: the slices of the 3-D array as a list (the 3-D array itself cannot be
        # handed to the C engine in every build: util_numpy_cc may fail to find DTWSeriesMatrixNDim)
        for name, cont in (("list", lst), ("cube", cube), ("cubelist", [a for a in cube])):
            res.append(name)
            # Python engine
            res.append(call(dtw_ndim.distance_matrix, cont, ndim=d, block=block, compact=compact,
                            only_triu=only_triu, **kw))
            res.append(call(dtw_ndim.distance_matrix, cont, block=block, compact=compact,
                            only_triu=only_triu, **kw))
            # C engine, serial
            res.append(call(dtw_ndim.distance_matrix, cont, ndim=d, block=block, compact=compact,
                            only_triu=only_triu, use_c=True, parallel=False, **kwc))
            res.append(call(dtw_ndim.distance_matrix_fast, cont, ndim=d, block=block, compact=compact,
                            only_triu=only_triu, parallel=False, **kwc_nopr))
            # C engine, OpenMP
            res.append(call(dtw_ndim.distance_matrix_fast, cont, ndim=d, block=block, compact=compact,
                            only_triu=only_triu, parallel=True, **kwc_nopr))
            res.append(call(dtw_ndim.distance_matrix, cont, ndim=d, block=block, compact=compact,
                            only_triu=only_triu, use_c=True, parallel=True, **kwc))
            if d == 1:
                if name != "cube":
                    flat = [np.ascontiguousarray(a[:, 0]) for a in cont]
                else:
                    flat = np.ascontiguousarray(cont[:, :, 0])
                res.append(call(dtw.distance_matrix, flat, block=block, compact=compact,
                                only_triu=only_triu, **kw))
                res.append(call(dtw.distance_matrix, flat, block=block, compact=compact,
                                only_triu=only_triu, use_c=True, **kwc))
                res.append(call(dtw.distance_matrix_fast, flat, block=block, compact=compact,
                                only_triu=only_triu, **kwc))
        res.append(use_pruning)
        out.append(tuple(res))


def main():
    out = [("focus", FOCUS)]
    for d in (1, 2, 3, 4):
        rng = np.random.RandomState(11000 + d)
        pair_cases(rng, d, out)
        matrix_cases(rng, d, out)
    n_exc = sum(1 for rec in out for v in rec if isinstance(v, tuple) and len(v) == 2 and v[0] == "EXC")
    n_res = sum(len(rec) - 1 for rec in out)
    digest = hashlib.sha256(repr(out).encode("utf-8")).hexdigest()
    sys.stderr.write("records=%d results=%d exceptions=%d\n" % (len(out), n_res, n_exc))
    print("DIGEST " + digest)
    return 0


if __name__ == "__main__":
    sys.exit(main())
