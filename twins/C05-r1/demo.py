#!/usr/bin/env python
"""Randomised digest of every routine that returns a warping path.

Run with  PYTHONPATH=<worktree>/src /venv/bin/python demo.py
Prints `DIGEST <sha256>` of the repr of all results.
"""
import hashlib
import random
import sys

import numpy as np

from dtaidistance import dtw, dtw_ndim
from dtaidistance import dtw_cc


def fl(x):
    """Exact (bit-for-bit) textual form of a float / array."""
    if x is None:
        return None
    if isinstance(x, (float, np.floating)):
        return float(x).hex()
    a = np.asarray(x, dtype=np.double)
    return (a.shape, hashlib.sha256(np.ascontiguousarray(a).tobytes()).hexdigest())


def pl(path):
    return [(int(a), int(b)) for a, b in path]


def guarded(fn):
    try:
        return fn()
    except Exception as exc:  # record the kind of failure, it must not change either
        return ('EXC', type(exc).__name__, str(exc)[:80])


def make_series(rng, n, ndim, style):
    if style == 0:
        a = rng.normal(size=(n, ndim))
    elif style == 1:
        # few distinct values -> many ties in the argmin
        a = rng.integers(0, 3, size=(n, ndim)).astype(np.double)
    elif style == 2:
        a = np.cumsum(rng.normal(size=(n, ndim)), axis=0)
    else:
        a = np.round(rng.normal(size=(n, ndim)) * 2) / 2
    a = np.ascontiguousarray(a, dtype=np.double)
    if ndim == 1:
        return a[:, 0].copy()
    return a


def main():
    seed = 20260929
    rng = np.random.default_rng(seed)
    prng = random.Random(seed)
    results = []
    ncases = 700
    for case in range(ncases):
        ndim = prng.choice([1, 1, 1, 2, 3])
        l1 = prng.randint(1, 14)
        l2 = prng.randint(1, 14)
        if prng.random() < 0.15:
            l2 = l1
        style = prng.randrange(4)
        s1 = make_series(rng, l1, ndim, style)
        s2 = make_series(rng, l2, ndim, style)
        window = prng.choice([None, None, 1, 2, 3, 5, 8, 20])
        penalty = prng.choice([None, None, 0.1, 0.5, 1.0, 2.5])
        # psi is kept below both lengths: the C one-call routine does not clamp it
        # itself (existing behaviour, out of scope here)
        psi_max = max(0, min(l1, l2) - 1)
        psi_kind = prng.randrange(4)
        if psi_kind == 0:
            psi = None
        elif psi_kind == 1:
            psi = prng.randint(0, min(4, psi_max))
        elif psi_kind == 2:
            psi = tuple(prng.randint(0, min(3, psi_max)) for _ in range(4))
        else:
            psi = prng.randint(0, psi_max)
        inner_dist = prng.choice(['squared euclidean', 'squared euclidean', 'euclidean'])
        kw = dict(window=window, penalty=penalty, psi=psi, inner_dist=inner_dist)
        if prng.random() < 0.15:
            kw['max_step'] = prng.choice([0.5, 1.0, 2.0])
        if prng.random() < 0.15:
            kw['max_dist'] = prng.choice([1.0, 3.0, 10.0])
        kw_ndim = dict(kw)
        if ndim > 1:
            kw_ndim['use_ndim'] = True
        rec = [case, l1, l2, ndim, sorted((k, repr(v)) for k, v in kw.items())]

        # --- full matrices, Python and C engine, and the paths traced from them
        for use_c in (False, True):
            def full(use_c=use_c):
                d, paths = dtw.warping_paths(s1, s2, use_c=use_c, **kw_ndim)
                if paths is None:
                    return ('nopaths', fl(d))
                out = [fl(d), fl(paths), pl(dtw.best_path(paths))]
                # custom start cells
                for _ in range(3):
                    r = prng.randint(1, l1)
                    c = prng.randint(1, l2)
                    out.append((r, c, pl(dtw.best_path(paths, row=r, col=c))))
                    out.append((r, pl(dtw.best_path(paths, row=r))))
                    out.append((c, pl(dtw.best_path(paths, col=c))))
                    out.append((np.int64(r), pl(dtw.best_path(paths, np.int64(r), np.int64(c)))))
                out.append(pl(dtw.best_path(paths, use_max=True)))
                return out
            rec.append(('full', use_c, guarded(full)))

            def intrepr(use_c=use_c):
                d, paths = dtw.warping_paths(s1, s2, use_c=use_c, keep_int_repr=True, **kw_ndim)
                if paths is None:
                    return ('nopaths', fl(d))
                p = 0 if penalty is None else penalty
                if inner_dist == 'squared euclidean':
                    p = p ** 2
                return [fl(d), fl(paths), pl(dtw.best_path(paths, penalty=p)),
                        pl(dtw.best_path(paths, l1, l2, False, p))]
            rec.append(('intrepr', use_c, guarded(intrepr)))

            def nopsineg(use_c=use_c):
                d, paths = dtw.warping_paths(s1, s2, use_c=use_c, psi_neg=False, **kw_ndim)
                if paths is None:
                    return ('nopaths', fl(d))
                return [fl(d), pl(dtw.best_path(paths))]
            rec.append(('nopsineg', use_c, guarded(nopsineg)))

        # --- one-call path routines
        if ndim == 1:
            rec.append(('wp_py', guarded(lambda: (lambda r: (pl(r[0]), fl(r[1])))(
                dtw.warping_path(s1, s2, include_distance=True, use_c=False, **kw)))))
            rec.append(('wp_c', guarded(lambda: (lambda r: (pl(r[0]), fl(r[1])))(
                dtw.warping_path(s1, s2, include_distance=True, use_c=True, **kw)))))
            rec.append(('wp_fast', guarded(lambda: (lambda r: (pl(r[0]), fl(r[1])))(
                dtw.warping_path_fast(s1, s2, include_distance=True, **kw)))))
            rec.append(('wp_fast_nd', guarded(lambda: pl(dtw.warping_path_fast(s1, s2, **kw)))))
            rec.append(('warp', guarded(lambda: (lambda r: (fl(np.array(r[0])), pl(r[1])))(
                dtw.warp(s1, s2, use_c=False, **kw)))))
            rec.append(('warp_c', guarded(lambda: (lambda r: (fl(np.array(r[0])), pl(r[1])))(
                dtw.warp(s1, s2, use_c=True, **kw)))))
            rec.append(('wp_pen', guarded(lambda: (lambda r: (fl(r[0]), pl(r[1]), fl(np.array(r[2])), fl(r[3])))(
                dtw.warping_path_penalty(s1, s2, penalty_post=0.3, use_c=False, **kw)))))
        else:
            rec.append(('wpnd_py', guarded(lambda: pl(dtw_ndim.warping_path(s1, s2, use_c=False, **kw)))))
            rec.append(('wpnd_c', guarded(lambda: pl(dtw_ndim.warping_path(s1, s2, use_c=True, **kw)))))

            def ccnd():
                s = dtw.DTWSettings.for_dtw(s1, s2, **kw_ndim)
                r = dtw_cc.warping_path_ndim(s1, s2, ndim, include_distance=True, **s.c_kwargs())
                return pl(r[0]), fl(r[1])
            rec.append(('cc_wpnd', guarded(ccnd)))

        # --- compact layout
        def compact():
            d, wps = dtw.warping_paths_fast(s1, s2, compact=True, **kw_ndim)
            s = dtw.DTWSettings.for_dtw(s1, s2, **kw_ndim)
            path = dtw_cc.best_path_compact(wps, l1, l2, **s.c_kwargs())
            return fl(d), fl(wps), pl(path)
        rec.append(('compact', guarded(compact)))

        def compact_nopsineg():
            d, wps = dtw.warping_paths_fast(s1, s2, compact=True, psi_neg=False, **kw_ndim)
            s = dtw.DTWSettings.for_dtw(s1, s2, **kw_ndim)
            path = dtw_cc.best_path_compact(wps, l1, l2, **s.c_kwargs())
            return fl(d), pl(path)
        rec.append(('compact_nopsineg', guarded(compact_nopsineg)))

        results.append(rec)

    # --- best_path on hand-made matrices (ties, -1 markers, inf borders)
    for case in range(300):
        r = prng.randint(2, 9)
        c = prng.randint(2, 9)
        m = rng.integers(0, 4, size=(r, c)).astype(np.double)
        m[0, :] = np.inf
        m[:, 0] = np.inf
        m[0, 0] = 0
        if prng.random() < 0.5:
            k = prng.randint(0, min(3, c - 1))
            if k:
                m[r - 1, c - k:] = -1
        elif prng.random() < 0.5:
            k = prng.randint(0, min(3, r - 1))
            if k:
                m[r - k:, c - 1] = -1
        pen = prng.choice([0, 0, 0.5, 1, 2])
        rr = prng.randint(1, r - 1)
        cc = prng.randint(1, c - 1)
        results.append(('hand', case, fl(m),
                        guarded(lambda: pl(dtw.best_path(m))),
                        guarded(lambda: pl(dtw.best_path(m, penalty=pen))),
                        guarded(lambda: pl(dtw.best_path(m, use_max=True))),
                        guarded(lambda: pl(dtw.best_path(m, use_max=True, penalty=pen))),
                        guarded(lambda: pl(dtw.best_path(m, rr, cc, penalty=pen))),
                        guarded(lambda: pl(dtw.best_path(m, row=rr))),
                        guarded(lambda: pl(dtw.best_path(m, col=cc, use_max=True)))))

    text = repr(results)
    nexc = text.count("'EXC'")
    print('cases', len(results), 'chars', len(text), 'exceptions', nexc, file=sys.stderr)
    print('DIGEST ' + hashlib.sha256(text.encode('utf-8')).hexdigest())
    return 0


if __name__ == '__main__':
    sys.exit(main())
