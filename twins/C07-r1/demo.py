"""Randomised comparison for dtw.distance_matrix, multiprocessing branches
(use_c=False parallel=True, and use_c=True parallel=True use_mp=True),
next to the serial results with the same arguments.

Prints `DIGEST <sha256>` of the repr of every result.
"""
import array
import hashlib
import multiprocessing
import random
import sys

import numpy as np

from dtaidistance import dtw

SEED = 20240707
rng = random.Random(SEED)
nrng = np.random.RandomState(SEED)

_orig_pool = multiprocessing.Pool


def set_pool_size(n):
    """dtw.distance_matrix calls mp.Pool() without arguments; fix the size."""
    if n is None:
        multiprocessing.Pool = _orig_pool
    else:
        def _pool(*args, **kwargs):
            if not args and 'processes' not in kwargs:
                kwargs['processes'] = n
            return _orig_pool(*args, **kwargs)
        multiprocessing.Pool = _pool


def canon(res):
    if isinstance(res, np.ndarray):
        return ('nd', res.shape, str(res.dtype), res.tobytes().hex())
    try:
        return (type(res).__name__, [float(v).hex() for v in res])
    except TypeError:
        return (type(res).__name__, repr(res))


def call(s, **kw):
    try:
        return canon(dtw.distance_matrix(s, **kw))
    except Exception as exc:  # keep failures in the digest as well
        return ('EXC', type(exc).__name__, str(exc))


def rand_series_list(n, lo, hi, as_numpy):
    out = []
    for _ in range(n):
        ln = rng.randint(lo, hi)
        vals = [round(rng.uniform(-5, 5), 3) for _ in range(ln)]
        out.append(np.array(vals, dtype=np.double) if as_numpy else array.array('d', vals))
    return out


def rand_block(n):
    choice = rng.randint(0, 6)
    if choice == 0:
        return None
    rb = rng.randint(0, n - 1)
    re = rng.randint(rb + 1, n)
    cb = rng.randint(0, n - 1)
    ce = rng.randint(cb + 1, n)
    if choice == 1:
        return ((rb, re), (cb, ce), False)
    if choice == 2:
        return ((0, n), (0, n))
    if choice == 3:
        return ((rb, re), (0, n))
    if choice == 4:
        return ((0, re), (cb, n), False)
    return ((rb, re), (cb, ce))


def rand_opts():
    o = {}
    if rng.random() < 0.4:
        o['window'] = rng.randint(1, 8)
    if rng.random() < 0.3:
        o['max_dist'] = round(rng.uniform(2, 25), 2)
    if rng.random() < 0.3:
        o['max_step'] = round(rng.uniform(1, 6), 2)
    if rng.random() < 0.3:
        o['max_length_diff'] = rng.randint(0, 5)
    if rng.random() < 0.3:
        o['penalty'] = round(rng.uniform(0.1, 2), 2)
    if rng.random() < 0.3:
        o['psi'] = rng.randint(0, 3)
    if rng.random() < 0.3:
        o['use_pruning'] = True
    if rng.random() < 0.25:
        o['inner_dist'] = 'euclidean'
    if 'psi' in o and 'window' in o:
        # psi larger than the window is outside the supported domain of the C kernel
        o['psi'] = min(o['psi'], o['window'])
    return o


def main():
    results = []
    pool_sizes = [None, 1, 2, 3, 5, 8, 24]
    case = 0
    # 1-dimensional collections: lists of lists, lists of arrays, 2-D arrays
    for it in range(60):
        n = rng.randint(2, 9)
        kind = it % 3
        if kind == 0:
            s = rand_series_list(n, 3, 14, as_numpy=False)
        elif kind == 1:
            s = rand_series_list(n, 3, 14, as_numpy=True)
        else:
            s = nrng.uniform(-4, 4, size=(n, rng.randint(3, 12))).round(3)
        block = rand_block(n)
        opts = rand_opts()
        compact = True if (block is not None and len(block) > 2) else (rng.random() < 0.5)
        only_triu = rng.random() < 0.3
        psize = pool_sizes[case % len(pool_sizes)]
        case += 1
        set_pool_size(psize)
        base = dict(block=block, compact=compact, only_triu=only_triu, **opts)
        rec = {'case': it, 'block': block, 'opts': sorted(opts.items()), 'pool': psize}
        rec['py_serial'] = call(s, parallel=False, use_c=False, **base)
        rec['py_mp'] = call(s, parallel=True, use_c=False, **base)
        rec['py_mp_forced'] = call(s, parallel=True, use_c=False, use_mp=True, **base)
        rec['c_serial'] = call(s, parallel=False, use_c=True, **base)
        rec['c_mp'] = call(s, parallel=True, use_c=True, use_mp=True, **base)
        if kind != 1:
            # serial C engine on the same series given as a list of numpy arrays
            rec['c_serial'] = call([np.array(row, dtype=np.double) for row in s],
                                   parallel=False, use_c=True, **base)
        rec['py_eq'] = rec['py_serial'][1:] == rec['py_mp'][1:]
        rec['c_eq'] = rec['c_serial'][1:] == rec['c_mp'][1:]
        results.append(rec)
    # n-dimensional collections
    for it in range(24):
        n = rng.randint(2, 7)
        ndim = rng.randint(2, 4)
        if it % 2 == 0:
            s = nrng.uniform(-3, 3, size=(n, rng.randint(3, 9), ndim)).round(3)
        else:
            s = [nrng.uniform(-3, 3, size=(rng.randint(3, 9), ndim)).round(3) for _ in range(n)]
        block = rand_block(n)
        opts = rand_opts()
        opts.pop('inner_dist', None)
        compact = True if (block is not None and len(block) > 2) else (rng.random() < 0.5)
        psize = pool_sizes[case % len(pool_sizes)]
        case += 1
        set_pool_size(psize)
        base = dict(block=block, compact=compact, use_ndim=True, **opts)
        rec = {'case': 'nd%d' % it, 'block': block, 'opts': sorted(opts.items()), 'pool': psize}
        rec['py_serial'] = call(s, parallel=False, use_c=False, **base)
        rec['py_mp'] = call(s, parallel=True, use_c=False, **base)
        rec['c_serial'] = call(s, parallel=False, use_c=True, **base)
        rec['c_mp'] = call(s, parallel=True, use_c=True, use_mp=True, **base)
        rec['py_eq'] = rec['py_serial'][1:] == rec['py_mp'][1:]
        rec['c_eq'] = rec['c_serial'][1:] == rec['c_mp'][1:]
        results.append(rec)
    # distance_matrix_fast with multiprocessing, and the functional wrapper
    set_pool_size(4)
    for it in range(10):
        n = rng.randint(3, 8)
        s = rand_series_list(n, 4, 12, as_numpy=True)
        block = rand_block(n)
        compact = True if (block is not None and len(block) > 2) else False
        try:
            r = canon(dtw.distance_matrix_fast(s, block=block, compact=compact, use_mp=True,
                                               window=rng.choice([None, 2, 5])))
        except Exception as exc:
            r = ('EXC', type(exc).__name__, str(exc))
        results.append(('fast_mp', it, block, r))
        fn = dtw.distance_matrix_func(use_c=False, parallel=True)
        try:
            r = canon(fn(s, block=block, compact=compact))
        except Exception as exc:
            r = ('EXC', type(exc).__name__, str(exc))
        results.append(('func_mp', it, block, r))
    set_pool_size(None)

    n_eq = sum(1 for r in results if isinstance(r, dict) and r['py_eq'] and r['c_eq'])
    n_all = sum(1 for r in results if isinstance(r, dict))
    print('cases', len(results), 'parallel==serial in', n_eq, 'of', n_all, file=sys.stderr)
    digest = hashlib.sha256(repr(results).encode('utf-8')).hexdigest()
    print('DIGEST', digest)
    return 0


if __name__ == '__main__':
    sys.exit(main())
