"""Randomised bit-for-bit comparison of the affinity (local-concurrence) routines.

Covers: dtw.warping_paths_affinity (Python), dtw.warping_paths_affinity_fast (full,
compact, ndim entry points), psi relaxation, and local_concurrences(...).kbest_matches /
kbest_matches_store call sequences (restart / keep / buffer / minlen) in the Python,
C-full and C-compact engines.  Prints `DIGEST <sha256>`.
"""
import hashlib
import io
import contextlib
import itertools
import random
import sys
import warnings

import numpy as np

from dtaidistance import dtw
from dtaidistance.subsequence.localconcurrences import local_concurrences

warnings.simplefilter("ignore")

H = hashlib.sha256()
NREC = [0]


def rec(*items):
    """Add a record to the digest; floats/arrays are added with their exact bits."""
    parts = []
    for it in items:
        if isinstance(it, np.ndarray):
            parts.append("A%s:%s:%s" % (it.dtype.str, it.shape, np.ascontiguousarray(it).tobytes().hex()))
        elif isinstance(it, (float, np.floating)):
            parts.append("F" + np.float64(it).tobytes().hex())
        else:
            parts.append(repr(it))
    H.update(repr(parts).encode())
    NREC[0] += 1


def call(fn, *args, **kwargs):
    try:
        return ("ok", fn(*args, **kwargs))
    except BaseException as exc:  # noqa
        if isinstance(exc, (KeyboardInterrupt, SystemExit)):
            raise
        return ("exc", type(exc).__name__ + ":" + str(exc)[:80])


def gen_series(rng, n, kind):
    if kind == 0:
        return rng.normal(size=n)
    if kind == 1:
        return np.round(rng.normal(size=n) * 2) / 2  # many ties
    if kind == 2:
        t = np.linspace(0, rng.uniform(2, 12), n)
        return np.sin(t) + rng.normal(scale=0.1, size=n)
    if kind == 3:
        return rng.integers(0, 3, size=n).astype(np.double)
    return np.cumsum(rng.normal(size=n)) * 0.3


GAMMAS = [1, 0.5, 2.0, 0.1, 1]
TAUS = [0, 0.3, 0.55, 0.7, 0.9]
DELTAS = [0, -0.2, -0.55, -1.4, -2]
DFACS = [1, 0.5, 0.9, 0.75, 1]
PENS = [None, 0, 0.05, 0.1, 0.5, 0.2, 1, 0.01]


def settings_iter(rng, pyrng, l1, l2):
    wins = [None, 1, 2, 3, max(l1, l2), max(1, abs(l1 - l2)), pyrng.randint(1, max(l1, l2) + 2)]
    return dict(gamma=pyrng.choice(GAMMAS), tau=pyrng.choice(TAUS), delta=pyrng.choice(DELTAS),
                delta_factor=pyrng.choice(DFACS), penalty=pyrng.choice(PENS),
                window=pyrng.choice(wins), only_triu=pyrng.choice([False, False, True]))


def part_matrix(seed, n_cases):
    rng = np.random.default_rng(seed)
    pyrng = random.Random(seed)
    for case in range(n_cases):
        l1 = pyrng.randint(1, 14)
        l2 = l1 if pyrng.random() < 0.35 else pyrng.randint(1, 14)
        kind = pyrng.randint(0, 4)
        s1 = gen_series(rng, l1, kind)
        if l1 == l2 and pyrng.random() < 0.4:
            s2 = s1.copy()  # self comparison
        else:
            s2 = gen_series(rng, l2, kind)
        kw = settings_iter(rng, pyrng, l1, l2)
        rec("case", case, l1, l2, sorted(kw.items(), key=lambda t: t[0]).__repr__())
        # Python engine (numpy arrays and lists)
        st, res = call(dtw.warping_paths_affinity, s1, s2, **kw)
        rec("py", st, *(res if st == "ok" else (res,)))
        if case % 4 == 0:
            st, res = call(dtw.warping_paths_affinity, list(map(float, s1)), list(map(float, s2)), **kw)
            rec("pylist", st, *(res if st == "ok" else (res,)))
        if kw["only_triu"] and l1 > l2:
            # The C kernels write outside the matrix for only_triu with l1 > l2
            # (memory-unsafe in the original code as well): Python engine only.
            continue
        # via use_c switch
        st, res = call(dtw.warping_paths_affinity, s1, s2, use_c=True, **kw)
        rec("py->c", st, *(res if st == "ok" else (res,)))
        # C engine: full, compact, ndim entry points
        for compact, use_ndim in itertools.product([False, True], [False, True]):
            if use_ndim and case % 10 != 0:
                continue
            st, res = call(dtw.warping_paths_affinity_fast, s1, s2, compact=compact, use_ndim=use_ndim, **kw)
            rec("c", compact, use_ndim, st, *(res if st == "ok" else (res,)))
        # psi relaxation (python + C), psi_neg both ways
        if case % 3 == 0:
            psi = pyrng.choice([1, 2, (1, 0, 0, 2), (0, 1, 2, 0), (1, 1, 1, 1)])
            for psi_neg in (True, False):
                st, res = call(dtw.warping_paths_affinity, s1, s2, psi=psi, psi_neg=psi_neg, **kw)
                rec("py-psi", repr(psi), psi_neg, st, *(res if st == "ok" else (res,)))
                st, res = call(dtw.warping_paths_affinity_fast, s1, s2, psi=psi, psi_neg=psi_neg, **kw)
                rec("c-psi", repr(psi), psi_neg, st, *(res if st == "ok" else (res,)))


def snapshot(lc):
    wp = lc._wp
    if wp is None:
        return ("none",)
    if isinstance(wp, np.ma.MaskedArray):
        return (np.array(wp.data), np.array(np.ma.getmaskarray(wp)))
    return (np.array(wp),)


def run_matches(lc, pyrng, tag):
    """A random sequence of kbest_matches / kbest_matches_store calls."""
    ncalls = pyrng.randint(1, 4)
    for ci in range(ncalls):
        k = pyrng.choice([1, 2, 3, 5, None])
        minlen = pyrng.choice([1, 2, 2, 3])
        buffer = pyrng.choice([0, 0, 0, 0, -1, -1, 1, 2])
        restart = pyrng.choice([True, False])
        keep = pyrng.choice([True, False])
        use_store = pyrng.choice([True, False])
        out = io.StringIO()

        def go():
            found = []
            if use_store:
                ms = lc.kbest_matches_store(k=k, minlen=minlen, buffer=buffer, restart=restart, keep=keep)
                for m in ms:
                    found.append((m.row, m.col, [(int(a), int(b)) for a, b in m.path]))
            else:
                cnt = 0
                for m in lc.kbest_matches(k=k, minlen=minlen, buffer=buffer, restart=restart):
                    found.append((int(m.row), int(m.col), [(int(a), int(b)) for a, b in m.path]))
                    cnt += 1
                    if cnt >= 8:
                        break
            return found
        with contextlib.redirect_stdout(out):
            st, res = call(go)
        rec(tag, ci, k, minlen, buffer, restart, keep, use_store, st, repr(res), out.getvalue())
        rec(tag, "wp", *snapshot(lc))
    if pyrng.random() < 0.5:
        st, res = call(lc._reset_wp_mask)
        rec(tag, "reset", st, *snapshot(lc))
    if pyrng.random() < 0.5:
        st, res = call(lc.wp_slice, positivize=pyrng.choice([True, False]))
        if st == "ok":
            res = np.ma.filled(res, -12345.0) if isinstance(res, np.ma.MaskedArray) else res
        rec(tag, "slice", st, res)


def part_lc(seed, n_cases):
    rng = np.random.default_rng(seed)
    pyrng = random.Random(seed)
    for case in range(n_cases):
        l1 = pyrng.randint(3, 22)
        selfcmp = pyrng.random() < 0.4
        l2 = l1 if (selfcmp or pyrng.random() < 0.3) else pyrng.randint(3, 22)
        kind = pyrng.randint(0, 4)
        s1 = gen_series(rng, l1, kind)
        s2 = None if selfcmp else gen_series(rng, l2, kind)
        kw = settings_iter(rng, pyrng, l1, l2)
        if selfcmp and pyrng.random() < 0.6:
            kw["only_triu"] = None
        elif not selfcmp:
            kw["only_triu"] = pyrng.choice([None, False])
        if pyrng.random() < 0.3:
            kw["tau"], kw["delta"], kw["delta_factor"] = 0.6, -1.2, 0.9
        rec("lccase", case, l1, l2, selfcmp, repr(sorted(kw.items())))
        seq_seed = pyrng.randint(0, 10 ** 9)
        for use_c, compact in [(False, None), (True, False), (True, True)]:
            tag = "lc-%s-%s" % (use_c, compact)
            st, lc = call(local_concurrences, s1, s2, use_c=use_c, compact=compact, **kw)
            if st != "ok":
                rec(tag, st, lc)
                continue
            rec(tag, "align", *snapshot(lc))
            run_matches(lc, random.Random(seq_seed), tag)
        if case % 5 == 0:
            st, lc = call(local_concurrences, s1, s2, estimate_settings=0.33,
                          window=kw["window"], use_c=pyrng.choice([True, False]))
            if st == "ok":
                rec("lc-est", *snapshot(lc))
                run_matches(lc, random.Random(seq_seed + 1), "lc-est")
            else:
                rec("lc-est", st, lc)


def main():
    for seed in (11, 12, 13):
        part_matrix(seed, 600)
    for seed in (21, 22, 23):
        part_lc(seed, 300)
    sys.stderr.write("records: %d\n" % NREC[0])
    print("DIGEST " + H.hexdigest())
    return 0


if __name__ == "__main__":
    sys.exit(main())
