#!/usr/bin/env python
"""Randomised bit-for-bit comparison for property C13 (subsequence alignment).

Exercises subsequence_alignment(...).matching_function(), best_match(),
kbest_matches(), best_matches(), best_matches_knee(), SAMatch.segment / path /
value / distance for both engines (Python, C), 1-D and n-D series, a range of
penalties, k / overlap / minlength / maxlength settings, repeated and
interleaved iteration; plus the underlying warping_paths / warping_paths_fast /
best_path routines with windows and psi relaxations.

Prints a single line `DIGEST <sha256>` over the repr of all results.
"""
import hashlib
import itertools
import sys

import numpy as np

from dtaidistance import dtw, dtw_ndim
from dtaidistance.subsequence.subsequencealignment import (
    subsequence_alignment, SubsequenceAlignment)

HAVE_C = dtw.dtw_cc is not None
results = []


def fl(x):
    """Exact representation of floats / arrays."""
    if x is None:
        return None
    a = np.asarray(x, dtype=np.double)
    return (a.shape, a.tobytes().hex())


def rec(tag, fn):
    try:
        r = fn()
    except Exception as exc:  # exceptions are part of the observable behaviour
        r = ('EXC', type(exc).__name__, str(exc))
    results.append((tag, r))
    return r


def match_repr(m):
    path = [(int(a), int(b)) for a, b in m.path]
    seg = [int(v) for v in m.segment]
    return (int(m.idx), seg, path, fl(m.value), fl(m.distance))


def take(gen, n=None):
    out = []
    for m in gen:
        out.append(match_repr(m))
        if n is not None and len(out) >= n:
            break
    return out


def gen_series(rng, n, ndim, kind):
    if ndim == 1:
        shape = (n,)
    else:
        shape = (n, ndim)
    if kind == 0:
        s = rng.standard_normal(shape)
    elif kind == 1:
        s = rng.integers(0, 4, size=shape).astype(np.double)   # many ties
    elif kind == 2:
        s = np.cumsum(rng.standard_normal(shape), axis=0)
    else:
        s = np.round(rng.standard_normal(shape) * 2) / 2.0      # some ties
    return np.ascontiguousarray(s, dtype=np.double)


def run_alignment(tag, query, series, penalty, use_c, rng, extra=None):
    extra = extra or {}

    def build():
        if extra:
            sa = SubsequenceAlignment(query, series, penalty=penalty, use_c=use_c, **extra)
            sa.align()
            return sa
        return subsequence_alignment(query, series, penalty=penalty, use_c=use_c)

    try:
        sa = build()
    except Exception as exc:
        results.append((tag, 'build', ('EXC', type(exc).__name__, str(exc))))
        return
    rec((tag, 'mf'), lambda: fl(sa.matching_function()))
    rec((tag, 'paths'), lambda: fl(sa.warping_paths()))
    rec((tag, 'best'), lambda: match_repr(sa.best_match()))
    # every end point: segment / path / endpoint
    nmf = len(sa.matching_function())
    idxs = list(range(nmf)) if nmf <= 12 else sorted(set(rng.integers(0, nmf, size=12).tolist()))
    for idx in idxs:
        rec((tag, 'get', idx), lambda: match_repr(sa.get_match(idx)))
        rec((tag, 'seg', idx), lambda: [int(v) for v in sa.matching_function_segment(idx)])
        rec((tag, 'ep', idx), lambda: int(sa.matching_function_endpoint(idx)))
        rec((tag, 'sp', idx), lambda: int(sa.matching_function_startpoint(idx)))
    # k-best with option combinations
    combos = [
        dict(k=1), dict(k=3), dict(k=None),
        dict(k=4, overlap=0, minlength=1), dict(k=None, overlap=0, minlength=1, maxlength=None),
        dict(k=5, overlap=1), dict(k=None, overlap=2, minlength=2),
        dict(k=6, overlap=0, minlength=None, maxlength=None),
        dict(k=None, overlap=0, minlength=2, maxlength=max(2, len(query))),
        dict(k=None, overlap=3, minlength=1, maxlength=len(query) + 1),
        dict(k=None, overlap=len(query) + 2, minlength=3, maxlength=2 * len(query)),
        dict(k=0), dict(k=2, overlap=100),
    ]
    for ci, kw in enumerate(combos):
        rec((tag, 'kbest', ci), lambda: take(sa.kbest_matches(**kw)))
    # random combos
    for ri in range(4):
        kw = dict(k=[None, 1, 2, 3, 7][int(rng.integers(0, 5))],
                  overlap=int(rng.integers(0, 5)),
                  minlength=[None, 1, 2, 3, 4][int(rng.integers(0, 5))],
                  maxlength=[None, 1, 2, 3, 5, 8, 13][int(rng.integers(0, 7))])
        rec((tag, 'kbest_r', ri, sorted(kw.items(), key=str)), lambda: take(sa.kbest_matches(**kw)))
    # fast variants (toggle engine)
    if HAVE_C:
        rec((tag, 'kbest_fast'), lambda: take(sa.kbest_matches_fast(k=3, overlap=1)))
        rec((tag, 'best_fast'), lambda: match_repr(sa.best_match_fast()))
    # range-factor and knee based
    for mrf in (1.0, 2, 5.5):
        for ov in (0, 2):
            rec((tag, 'bm', mrf, ov), lambda: take(sa.best_matches(max_rangefactor=mrf, overlap=ov)))
            rec((tag, 'bm1', mrf, ov), lambda: take(sa.best_matches(max_rangefactor=mrf, overlap=ov,
                                                                     minlength=1, maxlength=len(query) + 2)))
    for alpha in (0.1, 0.3, 0.9):
        rec((tag, 'knee', alpha), lambda: take(sa.best_matches_knee(alpha=alpha)))
        rec((tag, 'knee1', alpha), lambda: take(sa.best_matches_knee(alpha=alpha, overlap=1, minlength=1)))

    # histories: repeated iteration over the same alignment object
    rec((tag, 'rep1'), lambda: take(sa.kbest_matches(k=None, overlap=0)))
    rec((tag, 'rep2'), lambda: take(sa.kbest_matches(k=None, overlap=0)))

    # histories: interleaved iteration
    def interleaved():
        g1 = sa.kbest_matches(k=None, overlap=0, minlength=1)
        g2 = sa.kbest_matches(k=4, overlap=1)
        g3 = sa.best_matches(max_rangefactor=3)
        out = []
        gens = [g1, g2, g3]
        alive = [True, True, True]
        step = 0
        while any(alive) and step < 200:
            for gi, g in enumerate(gens):
                if not alive[gi]:
                    continue
                try:
                    m = next(g)
                    out.append((gi, match_repr(m)))
                except StopIteration:
                    alive[gi] = False
            step += 1
        return out
    rec((tag, 'interleaved'), interleaved)

    # histories: partial consumption, reset, re-align
    def partial_reset():
        g = sa.kbest_matches(k=None)
        first = take(g, 1)
        sa.reset()
        sa.align()
        second = take(sa.kbest_matches(k=2))
        rest = take(g)
        return first, second, rest, fl(sa.matching_function())
    rec((tag, 'partial_reset'), partial_reset)
    rec((tag, 'mf_after'), lambda: fl(sa.matching_function()))
    rec((tag, 'paths_after'), lambda: fl(sa.warping_paths()))


def run_wps(tag, s1, s2, rng, ndim):
    """Underlying kernels with windows and psi relaxations."""
    l1, l2 = len(s1), len(s2)
    pmod = dtw if ndim == 1 else dtw_ndim
    winds = [None, 1, 2, max(1, l1 // 2), max(l1, l2)]
    # psi relaxations are kept within the series lengths (larger values make the
    # C kernels read outside the matrix, which is undefined and not reproducible)
    m = min(l1, l2)
    psis = [None, 0, min(1, m), (0, 0, l2, l2), (min(1, l1), 0, min(2, l2), min(1, l2)),
            (0, min(2, l1), 0, min(2, l2)), (l1, l1, l2, l2)]
    pens = [None, 0.0, 0.1, 1.5]
    for window, psi, penalty in itertools.product(winds, psis, pens):
        if rng.random() < 0.6:
            continue
        for psi_neg, kir in ((True, False), (False, True), (False, False)):
            kw = dict(window=window, psi=psi, penalty=penalty, psi_neg=psi_neg, keep_int_repr=kir)
            key = (tag, 'wps', window, psi, penalty, psi_neg, kir)
            out = rec(key + ('py',), lambda: tuple(fl(v) for v in pmod.warping_paths(s1, s2, **kw)))
            if HAVE_C:
                rec(key + ('c',), lambda: tuple(fl(v) for v in pmod.warping_paths_fast(s1, s2, **kw)))
                rec(key + ('cc',), lambda: tuple(fl(v) for v in pmod.warping_paths_fast(s1, s2, compact=True, **kw)))
            if ndim == 1 and rng.random() < 0.3:
                for md, ms, prune in ((1.0, None, False), (None, 0.8, False), (None, None, True), (2.5, 1.5, False)):
                    kw2 = dict(kw, max_dist=md, max_step=ms, use_pruning=prune)
                    rec(key + ('py', md, ms, prune),
                        lambda: tuple(fl(v) for v in dtw.warping_paths(s1, s2, **kw2)))
                    if HAVE_C:
                        rec(key + ('c', md, ms, prune),
                            lambda: tuple(fl(v) for v in dtw.warping_paths_fast(s1, s2, **kw2)))
            # best_path on the produced matrix
            if isinstance(out, tuple) and out and out[0] != 'EXC':
                def bp():
                    _, paths = pmod.warping_paths(s1, s2, **kw)
                    res = [[(int(a), int(b)) for a, b in dtw.best_path(paths)]]
                    for col in range(1, paths.shape[1]):
                        p = dtw.best_path(paths, col=col, penalty=(penalty or 0) ** 2)
                        res.append([(int(a), int(b)) for a, b in p])
                    return res
                rec(key + ('bp',), bp)


def main():
    rng = np.random.default_rng(20240913)
    engines = [False, True] if HAVE_C else [False]
    penalties = [0.0, 0.1, 0.5, 1.0, 3.0]
    case = 0
    # systematic small sizes (includes len(query) == 1 and len(series) == 1, query longer than series)
    sizes = [(1, 1), (1, 2), (2, 1), (1, 5), (2, 2), (3, 3), (2, 7), (3, 11), (5, 5), (6, 4), (4, 9)]
    for (lq, ls) in sizes:
        for ndim in (1, 2):
            for kind in (0, 1):
                q = gen_series(rng, lq, ndim, kind)
                s = gen_series(rng, ls, ndim, kind)
                for pen in penalties:
                    for use_c in engines:
                        case += 1
                        run_alignment(('S', lq, ls, ndim, kind, pen, use_c), q, s, pen, use_c, rng)
    # random larger cases
    for it in range(70):
        lq = int(rng.integers(1, 9))
        ls = int(rng.integers(1, 41))
        ndim = int(rng.choice([1, 1, 2, 3]))
        kind = int(rng.integers(0, 4))
        q = gen_series(rng, lq, ndim, kind)
        s = gen_series(rng, ls, ndim, kind)
        if rng.random() < 0.5 and ls > lq:
            # plant (noisy) copies of the query so that good matches exist
            for _ in range(int(rng.integers(1, 4))):
                b = int(rng.integers(0, ls - lq + 1))
                s[b:b + lq] = q + 0.01 * rng.standard_normal(q.shape)
        pen = float(rng.choice([0.0, 0.05, 0.1, 0.7, 2.0, 10.0]))
        for use_c in engines:
            run_alignment(('R', it, lq, ls, ndim, kind, pen, use_c), q, s, pen, use_c, rng)
        # extra settings forwarded to DTWSettings (1-D only)
        if ndim == 1:
            for extra in (dict(window=max(2, ls // 2)), dict(max_step=1.5), dict(window=3, max_dist=4.0)):
                for use_c in engines:
                    run_alignment(('X', it, sorted(extra.items()), use_c), q, s, pen, use_c, rng, extra=extra)
    # list inputs (Python engine)
    for it in range(6):
        lq = int(rng.integers(1, 5))
        ls = int(rng.integers(2, 15))
        q = gen_series(rng, lq, 1, 1)
        s = gen_series(rng, ls, 1, 1)
        run_alignment(('L', it), q.tolist(), s.tolist(), 0.1, False, rng)
    # underlying kernels
    for it in range(14):
        ndim = 1 if it % 3 else 2
        l1 = int(rng.integers(1, 9))
        l2 = int(rng.integers(1, 14))
        kind = int(rng.integers(0, 4))
        s1 = gen_series(rng, l1, ndim, kind)
        s2 = gen_series(rng, l2, ndim, kind)
        run_wps(('W', it, l1, l2, ndim, kind), s1, s2, rng, ndim)

    nexc = sum(1 for r in results if isinstance(r[-1], tuple) and r[-1] and r[-1][0] == 'EXC')
    sys.stderr.write("results: %d, of which exceptions: %d, C engine: %s\n" % (len(results), nexc, HAVE_C))
    digest = hashlib.sha256(repr(results).encode('utf-8')).hexdigest()
    print("DIGEST " + digest)
    return 0


if __name__ == '__main__':
    sys.exit(main())
