#!/usr/bin/env python
"""Randomised, seeded comparison for property C03 (early abandoning never changes a result).

Calls the DTW routines through the public API on many series pairs and option
combinations (window / psi / penalty / max_step / max_length_diff / inner_dist,
thresholds max_dist below, at and above the true distance, pruning on/off,
Python and C engine, distance / warping_paths / distance_matrix) and prints a
sha256 digest over the exact (bit-level) results.
"""
import array
import hashlib
import itertools
import math
import random
import struct
import sys

import numpy as np

from dtaidistance import dtw, dtw_ndim, ed

H = hashlib.sha256()
COUNT = [0]


def fl(x):
    """Exact textual form of a float-like result."""
    if x is None:
        return 'None'
    x = float(x)
    return struct.pack('>d', x).hex()


def put(tag, value):
    COUNT[0] += 1
    if isinstance(value, np.ndarray):
        a = np.ascontiguousarray(value, dtype=np.double)
        value = 'nd' + repr(a.shape) + hashlib.sha256(a.tobytes()).hexdigest()
    elif isinstance(value, (array.array, list, tuple)):
        value = '[' + ','.join(fl(v) for v in value) + ']'
    elif isinstance(value, str):
        pass
    else:
        value = fl(value)
    H.update((repr(tag) + '=' + value + '\n').encode())


def call(tag, fn, *args, **kwargs):
    try:
        res = fn(*args, **kwargs)
    except Exception as exc:  # the kind of failure is part of the observable behaviour
        put(tag, 'EXC:' + type(exc).__name__)
        return None
    if isinstance(res, tuple):
        for k, part in enumerate(res):
            put((tag, k), part if part is not None else 'None')
        return res
    put(tag, res)
    return res


def make_series(rng, n, kind):
    if kind == 'gauss':
        v = [rng.gauss(0, 1) for _ in range(n)]
    elif kind == 'grid':  # many ties, DTW often equals the Euclidean distance
        v = [float(rng.randint(-2, 2)) for _ in range(n)]
    elif kind == 'grid01':
        v = [rng.randint(0, 10) / 10.0 for _ in range(n)]
    elif kind == 'walk':
        v, x = [], 0.0
        for _ in range(n):
            x += rng.gauss(0, 0.5)
            v.append(x)
    elif kind == 'const':
        c = float(rng.randint(-1, 1))
        v = [c] * n
    elif kind == 'sine':
        ph = rng.random() * 6
        v = [math.sin(ph + 0.7 * k) for k in range(n)]
    else:
        raise ValueError(kind)
    return np.array(v, dtype=np.double)


KINDS = ['gauss', 'grid', 'grid01', 'walk', 'const', 'sine']
WINDOWS = [None, 1, 2, 3, 5, 100]
PSIS = [None, 0, 1, 2, (1, 0, 0, 1), (0, 2, 1, 0), (2, 1, 0, 0)]
PENALTIES = [None, 0.1, 1.0]
MAX_STEPS = [None, 0.8, 2.5]
MLDS = [None, 0, 3]
INNER = ['squared euclidean', 'euclidean']


def clamp_psi(psi, window, n1, n2):
    """Keep psi within the series (the C library asserts this) and within the band:
    a relaxation wider than the window is read outside the band buffers by the
    library (in both engines), which is unrelated to the property examined here."""
    if psi is None:
        return None
    lim = 10 ** 6 if window is None else max(0, window - 1)
    if isinstance(psi, int):
        return min(psi, n1, n2, lim)
    return (min(psi[0], n1, lim), min(psi[1], n1, lim), min(psi[2], n2, lim), min(psi[3], n2, lim))


def thresholds(rng, d):
    """Thresholds around the true distance d (and fixed ones)."""
    out = [None, 0.2, 1.0, 5.0]
    if d is not None and math.isfinite(d) and d > 0:
        out += [d * 0.5, d * 0.9, d * (1 - 1e-6), d, d * (1 + 1e-6), d * 1.1, d * 2,
                math.nextafter(d, 0.0), math.nextafter(d, math.inf)]
    return out


def pair_block(rng, idx, use_c_too=True):
    n1 = rng.randint(1, 18)
    if rng.random() < 0.5:
        n2 = n1
    else:
        n2 = rng.randint(1, 18)
    k1 = rng.choice(KINDS)
    k2 = k1 if rng.random() < 0.6 else rng.choice(KINDS)
    s1 = make_series(rng, n1, k1)
    if rng.random() < 0.1 and n1 == n2:
        s2 = s1.copy()
    elif rng.random() < 0.2 and n1 == n2:
        # a slightly perturbed copy: DTW frequently equals the Euclidean distance
        s2 = s1 + np.array([rng.choice([0.0, 0.0, 0.1, -0.1]) for _ in range(n1)])
    else:
        s2 = make_series(rng, n2, k2)
    put(('series', idx), s1)
    put(('series2', idx), s2)
    mn = min(n1, n2)

    put(('ub', idx), dtw.ub_euclidean(s1, s2))
    put(('ed', idx), ed.distance(s1, s2))
    call(('edf', idx), ed.distance_fast, s1, s2)

    n_cfg = 14
    for ci in range(n_cfg):
        window = rng.choice(WINDOWS)
        psi = rng.choice(PSIS) if rng.random() < 0.5 else None
        psi = clamp_psi(psi, window, n1, n2)
        penalty = rng.choice(PENALTIES) if rng.random() < 0.5 else None
        max_step = rng.choice(MAX_STEPS) if rng.random() < 0.3 else None
        mld = rng.choice(MLDS) if rng.random() < 0.2 else None
        inner = rng.choice(INNER) if rng.random() < 0.3 else 'squared euclidean'
        base = dict(window=window, psi=psi, penalty=penalty, max_step=max_step,
                    max_length_diff=mld, inner_dist=inner)
        tag = (idx, ci, repr(sorted(base.items(), key=lambda t: t[0])))

        d0 = call((tag, 'py', 'plain'), dtw.distance, s1, s2, **base)
        ths = thresholds(rng, d0)
        # a random subset of the thresholds, always including one near d
        chosen = set(rng.sample(range(len(ths)), min(5, len(ths))))
        for ti, m in enumerate(ths):
            if ti not in chosen:
                continue
            for prune in (False, True):
                kw = dict(base, max_dist=m, use_pruning=prune)
                t2 = (tag, ti, fl(m), prune)
                call((t2, 'py'), dtw.distance, s1, s2, **kw)
                if use_c_too:
                    call((t2, 'c'), dtw.distance_fast, s1, s2, **kw)
                    call((t2, 'c2'), dtw.distance, s1, s2, use_c=True, **kw)
                if ci % 3 == 0:
                    call((t2, 'wp', 'py'), dtw.warping_paths, s1, s2, **kw)
                    if use_c_too:
                        call((t2, 'wp', 'c'), dtw.warping_paths_fast, s1, s2, **kw)
                if ci % 7 == 0:
                    call((t2, 'wpk', 'py'), dtw.warping_paths, s1, s2, keep_int_repr=True,
                         psi_neg=False, **kw)
                    if use_c_too:
                        call((t2, 'wpk', 'c'), dtw.warping_paths_fast, s1, s2, keep_int_repr=True,
                             psi_neg=False, **kw)
                        call((t2, 'wpc', 'c'), dtw.warping_paths_fast, s1, s2, compact=True, **kw)
        # only_ub
        call((tag, 'py', 'only_ub'), dtw.distance, s1, s2, only_ub=True, **base)
        call((tag, 'c', 'only_ub'), dtw.distance_fast, s1, s2, only_ub=True, **base)
        # array.array and list inputs for the Python engine
        if ci == 0:
            call((tag, 'py', 'list'), dtw.distance, list(s1), list(s2), use_pruning=True, **base)
            call((tag, 'py', 'arr'), dtw.distance, array.array('d', s1), array.array('d', s2),
                 max_dist=1.0, **base)
            call((tag, 'c', 'arr'), dtw.distance_fast, array.array('d', s1), array.array('d', s2),
                 max_dist=1.0, **base)


def ndim_block(rng, idx):
    n1 = rng.randint(1, 10)
    n2 = n1 if rng.random() < 0.5 else rng.randint(1, 10)
    nd = rng.randint(2, 3)
    s1 = np.array([[rng.choice([rng.gauss(0, 1), float(rng.randint(-1, 1))]) for _ in range(nd)]
                   for _ in range(n1)], dtype=np.double)
    s2 = np.array([[rng.choice([rng.gauss(0, 1), float(rng.randint(-1, 1))]) for _ in range(nd)]
                   for _ in range(n2)], dtype=np.double)
    put(('nds1', idx), s1)
    put(('nds2', idx), s2)
    for ci in range(6):
        window = rng.choice(WINDOWS)
        penalty = rng.choice(PENALTIES) if rng.random() < 0.4 else None
        psi = clamp_psi(rng.choice([0, 1, 2]), window, n1, n2) if rng.random() < 0.4 else None
        inner = rng.choice(INNER) if rng.random() < 0.3 else 'squared euclidean'
        base = dict(window=window, penalty=penalty, psi=psi, inner_dist=inner)
        tag = ('nd', idx, ci, repr(sorted(base.items())))
        d0 = call((tag, 'plain'), dtw_ndim.distance, s1, s2, **base)
        for ti, m in enumerate(thresholds(rng, d0)):
            if ti % 2 == ci % 2:
                continue
            for prune in (False, True):
                kw = dict(base, max_dist=m, use_pruning=prune)
                t2 = (tag, ti, fl(m), prune)
                call((t2, 'py'), dtw_ndim.distance, s1, s2, **kw)
                call((t2, 'c'), dtw_ndim.distance_fast, s1, s2, **kw)
                if ci % 2 == 0:
                    call((t2, 'wp', 'py'), dtw_ndim.warping_paths, s1, s2, **kw)
                    call((t2, 'wp', 'c'), dtw_ndim.warping_paths_fast, s1, s2, **kw)


def matrix_block(rng, idx):
    nb = rng.randint(2, 7)
    equal = rng.random() < 0.5
    n = rng.randint(2, 14)
    kind = rng.choice(KINDS)
    if equal:
        series = [make_series(rng, n, kind if rng.random() < 0.7 else rng.choice(KINDS))
                  for _ in range(nb)]
    else:
        series = [make_series(rng, rng.randint(2, 14), rng.choice(KINDS)) for _ in range(nb)]
    if rng.random() < 0.3:
        series[-1] = series[0].copy()
    for k, s in enumerate(series):
        put(('mseries', idx, k), s)
    containers = [('list', series)]
    if equal:
        containers.append(('mat', np.array(series)))
    for ci in range(5):
        window = rng.choice(WINDOWS)
        psi = clamp_psi(rng.choice([None, 0, 1, 2]), window, 2, 2)
        penalty = rng.choice(PENALTIES) if rng.random() < 0.5 else None
        max_step = rng.choice(MAX_STEPS) if rng.random() < 0.2 else None
        mld = rng.choice(MLDS) if rng.random() < 0.2 else None
        inner = rng.choice(INNER) if rng.random() < 0.25 else 'squared euclidean'
        m = rng.choice([None, 0.2, 0.7, 1.5, 3.0, 10.0])
        block = None
        if rng.random() < 0.3:
            a = rng.randint(0, nb - 1)
            b = rng.randint(0, nb - 1)
            block = ((0, a + 1), (b, nb))
        for prune in (False, True):
            kw = dict(window=window, psi=psi, penalty=penalty, max_step=max_step,
                      max_length_diff=mld, inner_dist=inner, max_dist=m, use_pruning=prune,
                      block=block)
            tag = ('dm', idx, ci, repr(sorted(kw.items(), key=lambda t: t[0])))
            for cname, cont in containers:
                call((tag, cname, 'py'), dtw.distance_matrix, cont, **kw)
                call((tag, cname, 'pyc'), dtw.distance_matrix, cont, compact=True, **kw)
                if cname == 'mat':
                    continue
                call((tag, cname, 'c'), dtw.distance_matrix, cont, use_c=True, **kw)
                call((tag, cname, 'cc'), dtw.distance_matrix, cont, use_c=True, compact=True, **kw)
                kwf = dict(kw)
                call((tag, cname, 'fast'), dtw.distance_matrix_fast, cont, **kwf)
                call((tag, cname, 'cpar'), dtw.distance_matrix, cont, use_c=True, parallel=True, **kw)


def main():
    rng = random.Random(20240303)
    for idx in range(170):
        pair_block(rng, idx)
    rng = random.Random(777)
    for idx in range(40):
        ndim_block(rng, idx)
    rng = random.Random(4242)
    for idx in range(45):
        matrix_block(rng, idx)
    sys.stderr.write('results: %d\n' % COUNT[0])
    print('DIGEST ' + H.hexdigest())
    return 0


if __name__ == '__main__':
    sys.exit(main())
