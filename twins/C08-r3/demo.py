"""r3 demo: lb_keogh / lb_keogh_euclidean (C engine) on a broad seeded random sweep."""
import hashlib
import itertools
import random
import numpy as np
from dtaidistance import dtw, dtw_cc

rng = random.Random(80803)
results = []


def series(n, kind):
    if kind == 0:
        return np.array([rng.uniform(-5, 5) for _ in range(n)], dtype=np.double)
    if kind == 1:   # many ties
        return np.array([float(rng.randint(-2, 2)) for _ in range(n)], dtype=np.double)
    if kind == 2:   # large magnitudes / tiny differences
        return np.array([1e6 + rng.random() * 1e-3 for _ in range(n)], dtype=np.double)
    return np.array([rng.choice([0.0, -0.0, 1.5, -1.5, 1e-300, 1e300]) for _ in range(n)], dtype=np.double)


# exhaustive small grid: all (l1, l2) x window 0..max+1 x inner distance
for l1, l2 in itertools.product(range(1, 9), repeat=2):
    for kind in range(4):
        s1 = series(l1, kind)
        s2 = series(l2, kind)
        for window in [None] + list(range(0, max(l1, l2) + 2)):
            for inner in ("squared euclidean", "euclidean"):
                kw = {"inner_dist": inner}
                if window is not None:
                    kw["window"] = window
                v = dtw_cc.lb_keogh(s1, s2, **kw)
                results.append((l1, l2, kind, window, inner, float(v).hex()))
                # through the high-level API as well
                kw2 = {"inner_dist": inner, "use_c": True}
                if window:
                    kw2["window"] = window
                v2 = dtw.lb_keogh(s1, s2, **kw2)
                results.append(float(v2).hex())

# larger random cases
for _ in range(1500):
    l1 = rng.randint(1, 60)
    l2 = rng.randint(1, 60)
    kind = rng.randint(0, 3)
    s1 = series(l1, kind)
    s2 = series(l2, kind)
    window = rng.choice([None, 0, 1, 2, 3, rng.randint(1, max(l1, l2) + 1)])
    inner = rng.choice(["squared euclidean", "euclidean"])
    kw = {"inner_dist": inner}
    if window is not None:
        kw["window"] = window
    # other settings are accepted and must not influence the bound
    if rng.random() < 0.3:
        kw["max_dist"] = rng.uniform(0.1, 10)
    if rng.random() < 0.3:
        kw["max_step"] = rng.uniform(0.1, 10)
    if rng.random() < 0.3:
        kw["psi"] = rng.randint(0, min(l1, l2))
    v = dtw_cc.lb_keogh(s1, s2, **kw)
    results.append((l1, l2, kind, window, inner, float(v).hex()))
    # and the symmetric call
    v = dtw_cc.lb_keogh(s2, s1, **kw)
    results.append(float(v).hex())

print("N", len(results))
print("DIGEST", hashlib.sha256(repr(results).encode()).hexdigest())
