"""Randomised comparison for the pure-Python DTW distance (dtaidistance.dtw.distance),
DTWSettings (adj_* values, split_psi) with and without NumPy importable.

Prints one line `DIGEST <sha256>` over the repr of all results.
Run with PYTHONPATH pointing at the library copy under test.
"""
import hashlib
import os
import random
import subprocess
import sys


def fl(x):
    """Exact textual form of a numeric result (bit-for-bit)."""
    try:
        return float(x).hex()
    except Exception:
        return repr(x)


def child(tag):
    import array
    from dtaidistance import dtw, innerdistance
    np = dtw.np
    assert (np is None) == (tag == "nonumpy"), (np, tag)

    class AbsCube(innerdistance.CustomInnerDist):
        @staticmethod
        def inner_dist(x, y):
            return abs(x - y) ** 3

        @staticmethod
        def result(x):
            return x ** (1.0 / 3)

        @staticmethod
        def inner_val(x):
            return x ** 3

    class PlainObj:
        """Not a subclass: only the three callables."""
        @staticmethod
        def inner_dist(x, y):
            return abs(x - y) + 0.5 * (x - y) ** 2

        @staticmethod
        def result(x):
            return x / 2

        @staticmethod
        def inner_val(x):
            return 2 * x

    inner_dists = ["squared euclidean", "euclidean", AbsCube, PlainObj()]
    inner_names = ["sqeuc", "euc", "AbsCube", "PlainObj"]

    rnd = random.Random(20240917)
    out = []

    def series(n, kind):
        if kind == 0:
            vals = [rnd.uniform(-3, 3) for _ in range(n)]
        elif kind == 1:
            vals = [float(rnd.randint(-2, 2)) for _ in range(n)]
        else:
            vals = [rnd.gauss(0, 1) * rnd.choice([0.1, 1, 10]) for _ in range(n)]
        return vals

    def container(vals, how):
        if how == 0:
            return list(vals)
        if how == 1:
            return array.array('d', vals)
        if np is not None:
            return np.array(vals, dtype=np.double)
        return array.array('d', vals)

    def rand_psi(l1, l2):
        k = rnd.random()
        if k < 0.35:
            return None
        if k < 0.45:
            return 0
        if k < 0.7:
            return rnd.randint(1, max(1, min(l1, l2)))
        t = [rnd.randint(0, l1), rnd.randint(0, l1), rnd.randint(0, l2), rnd.randint(0, l2)]
        if rnd.random() < 0.3:
            t[rnd.randrange(4)] = 0
        return tuple(t) if rnd.random() < 0.7 else list(t)

    def rand_settings(l1, l2):
        kw = {}
        k = rnd.random()
        if k < 0.3:
            pass
        elif k < 0.4:
            kw['window'] = None
        else:
            kw['window'] = rnd.randint(1, max(l1, l2) + 2)
        k = rnd.random()
        if k < 0.5:
            kw['penalty'] = rnd.choice([0, 0.0, 0.1, 0.5, 1, 2.5, rnd.uniform(0, 3)])
        k = rnd.random()
        if k < 0.7:
            kw['psi'] = rand_psi(l1, l2)
        k = rnd.random()
        if k < 0.35:
            kw['max_step'] = rnd.choice([0, None, 0.5, 1.0, 2, 3.5, rnd.uniform(0.1, 6)])
        k = rnd.random()
        if k < 0.3:
            kw['max_length_diff'] = rnd.choice([None, 0, 1, 2, 3, 5, float('inf')])
        k = rnd.random()
        if k < 0.3:
            kw['max_dist'] = rnd.choice([None, 0, 0.2, 1.0, 2.0, 5, rnd.uniform(0.1, 8)])
        k = rnd.random()
        if k < 0.15:
            kw['use_pruning'] = True
        idx = rnd.choice([0, 0, 0, 1, 1, 2, 3])
        if idx != 0 or rnd.random() < 0.5:
            kw['inner_dist'] = inner_dists[idx]
        return kw, inner_names[idx]

    def show_kw(kw, iname):
        d = dict(kw)
        if 'inner_dist' in d:
            d['inner_dist'] = iname
        return sorted(d.items(), key=lambda t: t[0])

    # ---- Part A: random pairs x random crossed settings ------------------------------
    for case in range(6000):
        l1 = rnd.randint(1, 11)
        l2 = rnd.randint(1, 11) if rnd.random() < 0.75 else l1
        kind = rnd.randrange(3)
        v1, v2 = series(l1, kind), series(l2, kind)
        how = rnd.randrange(3)
        s1, s2 = container(v1, how), container(v2, how)
        kw, iname = rand_settings(l1, l2)
        if kw.get('use_pruning') and l1 != l2:
            # ub_euclidean on unequal lengths: still record whatever happens
            pass
        try:
            res = fl(dtw.distance(s1, s2, **kw))
        except Exception as exc:  # recorded, must be the same before/after
            res = "EXC:" + type(exc).__name__
        out.append(("A", case, l1, l2, how, show_kw(kw, iname), res))

    # ---- Part B: exhaustive small grid lengths x window x psi x penalty -------------
    base1 = [0.0, 1.5, -0.5, 2.0, 0.25, -1.0, 3.0]
    base2 = [0.5, -1.0, 2.5, 0.0, 1.0, -2.0, 0.75]
    for l1 in range(1, 7):
        for l2 in range(1, 7):
            s1, s2 = base1[:l1], base2[:l2]
            for window in [None, 1, 2, 3, 7]:
                for psi in [None, 1, 2, (1, 0, 0, 1), (0, 1, 1, 0), (0, 0, 0, 2), (2, 0, 0, 0)]:
                    if psi is not None:
                        t = (psi,) * 4 if type(psi) is int else psi
                        if t[0] > l1 or t[1] > l1 or t[2] > l2 or t[3] > l2:
                            continue
                    for penalty in [None, 0.7]:
                        for max_step in [None, 1.6]:
                            for idist in [0, 1, 2]:
                                kw = dict(window=window, psi=psi, penalty=penalty,
                                          max_step=max_step, inner_dist=inner_dists[idist])
                                try:
                                    res = fl(dtw.distance(s1, s2, **kw))
                                except Exception as exc:
                                    res = "EXC:" + type(exc).__name__
                                out.append(("B", l1, l2, window, psi, penalty, max_step, idist, res))

    # ---- Part C: DTWSettings derived values and split_psi ----------------------------
    for case in range(1500):
        l1, l2 = rnd.randint(1, 9), rnd.randint(1, 9)
        kw, iname = rand_settings(l1, l2)
        kw.pop('use_pruning', None)
        try:
            st = dtw.DTWSettings(**kw)
            res = (fl(st.adj_max_step), fl(st.adj_max_dist), fl(st.adj_penalty),
                   fl(st.adj_max_length_diff), repr(st.split_psi()), repr(st.window))
        except Exception as exc:
            res = "EXC:" + type(exc).__name__
        out.append(("C", case, show_kw(kw, iname), res))
    for psi in [None, 0, 1, 5, True, False, 2.0, (1, 2, 3, 4), [4, 3, 2, 1], (0, 0, 0, 0), "ab", (1, 2, 3), {1: 2}]:
        try:
            res = repr(dtw.DTWSettings(psi=psi).split_psi())
        except Exception as exc:
            res = "EXC:" + type(exc).__name__
        out.append(("Cpsi", repr(psi), res))
    for name in ('max_step', 'max_dist', 'penalty', 'max_length_diff'):
        for val in [None, 0, 0.0, 1, 1.5, True, False, float('inf'), -1, -2.5]:
            for idist in range(4):
                try:
                    st = dtw.DTWSettings(inner_dist=inner_dists[idist], **{name: val})
                    res = (fl(st.adj_max_step), fl(st.adj_max_dist), fl(st.adj_penalty),
                           fl(st.adj_max_length_diff), repr(type(getattr(st, 'adj_' + name)).__name__))
                except Exception as exc:
                    res = "EXC:" + type(exc).__name__
                out.append(("Cval", name, repr(val), idist, res))

    # ---- Part D: distance through the python distance matrix / for_dtw / only_ub -----
    for case in range(150):
        n = rnd.randint(2, 5)
        ln = rnd.randint(2, 8)
        ss = [series(ln if rnd.random() < 0.6 else rnd.randint(1, 8), 0) for _ in range(n)]
        kw, iname = rand_settings(ln, ln)
        kw.pop('use_pruning', None)
        try:
            m = dtw.distance_matrix(ss, use_c=False, compact=True, **kw)
            res = [fl(x) for x in m]
        except Exception as exc:
            res = "EXC:" + type(exc).__name__
        out.append(("D", case, show_kw(kw, iname), res))
    for case in range(200):
        ln = rnd.randint(1, 9)
        s1, s2 = series(ln, 0), series(ln, 0)
        idx = rnd.randrange(4)
        try:
            res = fl(dtw.distance(s1, s2, only_ub=True, inner_dist=inner_dists[idx]))
        except Exception as exc:
            res = "EXC:" + type(exc).__name__
        out.append(("Dub", case, idx, res))

    sys.stdout.write(tag + "\n")
    for rec in out:
        sys.stdout.write(repr(rec) + "\n")
    n_exc = sum(1 for rec in out if isinstance(rec[-1], str) and rec[-1].startswith("EXC:"))
    sys.stderr.write("%s: %d records, %d exceptions\n" % (tag, len(out), n_exc))


def main():
    if len(sys.argv) > 1 and sys.argv[1] == "--child":
        child(sys.argv[2])
        return 0
    h = hashlib.sha256()
    for tag, flag in (("numpy", "0"), ("nonumpy", "1")):
        env = dict(os.environ)
        env["DTAIDISTANCE_TESTWITHOUTNUMPY"] = flag
        env["PYTHONHASHSEED"] = "0"
        p = subprocess.run([sys.executable, os.path.abspath(__file__), "--child", tag],
                           env=env, stdout=subprocess.PIPE, stderr=subprocess.PIPE)
        if p.returncode != 0:
            sys.stderr.write(p.stderr.decode())
            return 1
        if "-v" in sys.argv:
            sys.stderr.write(p.stderr.decode())
        h.update(p.stdout)
    print("DIGEST " + h.hexdigest())
    return 0


if __name__ == "__main__":
    sys.exit(main())
