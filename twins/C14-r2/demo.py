"""Randomised comparison for the C lower bound lb_keogh (both inner distances)
and for the k-NN subsequence search that prunes with it.

Runs the search through the public API on seeded random inputs and option
combinations and prints a digest of everything that was observed.
"""
import hashlib
import itertools
import logging
import random
import sys

import numpy as np

from dtaidistance import dtw
from dtaidistance.subsequence.subsequencesearch import (
    subsequence_search, SubsequenceSearch)

logging.getLogger("be.kuleuven.dtai.distance").setLevel(logging.ERROR)

results = []


def rec(tag, value):
    results.append((tag, value))


def fl(x):
    """Exact representation of a float (or whatever came back)."""
    try:
        return float(x).hex()
    except Exception:  # pragma: no cover
        return repr(x)


def observe(ss, call, arg):
    """Execute one call on the search object and record all that is visible."""
    out = []
    try:
        if call == 'kbest':
            ms = ss.kbest_matches(k=arg)
            out.append(('len', len(ms)))
            out.append(('iter', [(fl(m.distance), int(m.idx), fl(m.value)) for m in ms]))
            out.append(('str', str(ms)))
        elif call == 'kbest_fast':
            ms = ss.kbest_matches_fast(k=arg)
            out.append(('len', len(ms)))
            out.append(('iter', [(fl(m.distance), int(m.idx), fl(m.value)) for m in ms]))
        elif call == 'best':
            m = ss.best_match()
            out.append(('best', (fl(m.distance), int(m.idx), fl(m.value))))
        elif call == 'align':
            r = ss.align(k=arg)
            out.append(('align', [(fl(d), int(i)) for d, i in r]))
        elif call == 'ith':
            r = ss.get_ith_value(arg)
            out.append(('ith', (fl(r[0]), int(r[1]))))
        elif call == 'reset':
            ss.reset()
    except Exception as exc:  # record failures too: they must not change either
        out.append(('exc', type(exc).__name__, str(exc)))
    # state that later calls depend on
    out.append(('k', ss.k))
    out.append(('use_lb', ss.use_lb))
    out.append(('opt_max_dist', fl(ss.dists_options.get('max_dist'))))
    out.append(('max_dist', fl(ss.max_dist)))
    if ss.kbest_distances is None:
        out.append(('kbest', None))
    else:
        out.append(('kbest', [(fl(d), int(i)) for d, i in ss.kbest_distances]))
    if ss.distances is None:
        out.append(('distances', None))
    else:
        out.append(('distances', [fl(d) for d in ss.distances]))
    return out


def make_case(rng, nprng, ndim):
    n = rng.randint(1, 9)
    lq = rng.randint(2, 12)
    equal_len = rng.random() < 0.6
    kind = rng.choice(['float', 'int', 'coarse'])

    def series(length):
        shape = (length,) if ndim == 1 else (length, ndim)
        if kind == 'float':
            a = nprng.normal(size=shape)
        elif kind == 'int':
            a = nprng.integers(-3, 4, size=shape).astype(np.double)
        else:
            a = np.round(nprng.normal(size=shape) * 2) / 2
        return np.ascontiguousarray(a, dtype=np.double)

    query = series(lq)
    cands = []
    for _ in range(n):
        if cands and rng.random() < 0.3:
            cands.append(cands[rng.randrange(len(cands))].copy())  # duplicates -> ties
        elif rng.random() < 0.1:
            cands.append(query.copy())  # distance zero
        else:
            cands.append(series(lq if equal_len else rng.randint(2, 12)))
    return query, cands


def make_options(rng, lq):
    opts = {}
    if rng.random() < 0.6:
        opts['window'] = rng.randint(1, lq + 2)
    if rng.random() < 0.4:
        opts['penalty'] = rng.choice([0.0, 0.1, 0.5, 1.0])
    if rng.random() < 0.25:
        opts['max_dist'] = rng.choice([0.5, 1.0, 2.0, 4.0])
    if rng.random() < 0.15:
        opts['max_step'] = rng.choice([1.0, 2.0, 3.0])
    if rng.random() < 0.15:
        opts['use_pruning'] = True
    if rng.random() < 0.1:
        opts['psi'] = rng.randint(0, 2)
    if rng.random() < 0.3:
        opts['inner_dist'] = 'euclidean'
    return opts


def run():
    rng = random.Random(140214)
    nprng = np.random.default_rng(140214)
    for case in range(700):
        ndim = 1 if rng.random() < 0.8 else rng.randint(2, 3)
        query, cands = make_case(rng, nprng, ndim)
        n = len(cands)
        opts = make_options(rng, len(query))
        use_lb = rng.random() < 0.85
        use_c = rng.choice([None, False, True, True, True, True])
        max_dist = rng.choice([None, None, None, 1.5, 3.0])
        max_value = rng.choice([None, None, None, 0.1, 0.4])
        keep_all = rng.random() < 0.25
        as_list = rng.random() < 0.3 and use_c is not True
        q = query.tolist() if (as_list and ndim == 1) else query
        cs = [c.tolist() for c in cands] if (as_list and ndim == 1) else cands
        rec('case', (case, ndim, n, sorted(opts.items()), use_lb, use_c, max_dist, max_value,
                     keep_all, as_list))

        def build():
            if keep_all or rng.random() < 0.3:
                return SubsequenceSearch(q, cs, dists_options=opts, use_lb=use_lb,
                                         keep_all_distances=keep_all, max_dist=max_dist,
                                         max_value=max_value, use_c=use_c)
            return subsequence_search(q, cs, dists_options=opts, use_lb=use_lb,
                                      max_dist=max_dist, max_value=max_value, use_c=use_c)

        # 1. every k on a fresh object
        for k in list(range(1, n + 2)) + [None]:
            ss = build()
            rec('fresh', (k, observe(ss, 'kbest', k)))
        # 2. one object, a random history of calls
        ss = build()
        for step in range(rng.randint(2, 7)):
            call = rng.choice(['kbest', 'kbest', 'kbest', 'best', 'align', 'ith', 'reset',
                               'kbest_fast'])
            if call in ('kbest', 'align', 'kbest_fast'):
                arg = rng.choice(list(range(1, n + 2)) + [None])
            elif call == 'ith':
                arg = rng.randint(0, n)
            else:
                arg = None
            rec('hist', (step, call, arg, observe(ss, call, arg)))
        # 3. exhaustive reference through the same public distance function (for the record)
        if ndim == 1 and not opts.get('psi'):
            ref_opts = dict(opts)
            ref_opts.pop('max_dist', None)
            if use_c is not None:
                ref_opts['use_c'] = use_c
            try:
                ref = sorted((float(dtw.distance(q, c, **ref_opts)), i) for i, c in enumerate(cs))
                rec('ref', [(fl(d), i) for d, i in ref])
            except Exception as exc:
                rec('ref', ('exc', type(exc).__name__, str(exc)))


def run_lb():
    """Direct calls of dtw.lb_keogh with the C engine (and pure Python for the record)."""
    rng = random.Random(24014)
    nprng = np.random.default_rng(24014)
    specials = [0.0, -0.0, 1.0, -1.0, 1e-300, 1e300, -1e300, 5e-324]
    for case in range(6000):
        l1 = rng.randint(1, 25)
        l2 = l1 if rng.random() < 0.4 else rng.randint(1, 25)
        kind = rng.choice(['float', 'int', 'coarse', 'special', 'const'])

        def series(length):
            if kind == 'float':
                a = nprng.normal(size=length) * rng.choice([1e-3, 1.0, 1e3])
            elif kind == 'int':
                a = nprng.integers(-3, 4, size=length).astype(np.double)
            elif kind == 'coarse':
                a = np.round(nprng.normal(size=length) * 2) / 2
            elif kind == 'const':
                a = np.full(length, rng.choice([-2.0, 0.0, 0.5]))
            else:
                a = np.array([rng.choice(specials) if rng.random() < 0.4 else rng.gauss(0, 1)
                              for _ in range(length)])
            return np.ascontiguousarray(a, dtype=np.double)

        s1 = series(l1)
        s2 = series(l2)
        if rng.random() < 0.05:
            s2[rng.randrange(l2)] = np.nan
        if rng.random() < 0.05:
            s1[rng.randrange(l1)] = rng.choice([np.inf, -np.inf, np.nan])
        if rng.random() < 0.05:
            s2[rng.randrange(l2)] = rng.choice([np.inf, -np.inf])
        opts = {}
        if rng.random() < 0.75:
            opts['window'] = rng.randint(1, max(l1, l2) + 3)
        if rng.random() < 0.5:
            opts['inner_dist'] = rng.choice(['euclidean', 'squared euclidean'])
        if rng.random() < 0.2:
            opts['max_dist'] = rng.choice([0.5, 2.0])
        if rng.random() < 0.2:
            opts['max_step'] = rng.choice([0.5, 2.0])
        if rng.random() < 0.2:
            opts['penalty'] = rng.choice([0.1, 1.0])
        out = []
        for use_c in (True, False):
            try:
                out.append(fl(dtw.lb_keogh(s1, s2, use_c=use_c, **opts)))
            except Exception as exc:
                out.append(('exc', type(exc).__name__, str(exc)))
        try:
            out.append(fl(dtw.lb_keogh(s2, s1, use_c=True, **opts)))
        except Exception as exc:
            out.append(('exc', type(exc).__name__, str(exc)))
        rec('lb', (case, l1, l2, kind, sorted(opts.items()), out))


if __name__ == '__main__':
    run_lb()
    run()
    digest = hashlib.sha256(repr(results).encode('utf-8')).hexdigest()
    print('records', len(results), file=sys.stderr)
    print('DIGEST ' + digest)
    sys.exit(0)
