"""Randomised digest of dtw.warping_paths (pure Python engine) over the option grid of property C04.

Prints one line `DIGEST <sha256>`; the digest covers the distance and every byte of every
returned matrix (or the type + message of the exception that was raised).
"""
import hashlib
import random
import sys

import numpy as np

from dtaidistance import dtw, innerdistance

rng = random.Random(20404)
h = hashlib.sha256()
n_calls = 0
n_exc = 0


def feed(x):
    h.update(repr(x).encode("utf8"))
    h.update(b"\n")


def enc_result(res):
    d, m = res
    out = [type(d).__name__, float(d).hex() if d is not None else None]
    if m is None:
        out.append(None)
    else:
        m = np.asarray(m)
        out.append((str(m.dtype), m.shape, m.tobytes().hex()))
    return out


def call(s1, s2, **kw):
    global n_calls, n_exc
    n_calls += 1
    try:
        res = enc_result(dtw.warping_paths(s1, s2, **kw))
    except Exception as exc:  # error paths are part of the observable behaviour too
        n_exc += 1
        res = ["EXC", type(exc).__name__, str(exc)]
    feed((sorted((k, repr(v)) for k, v in kw.items()), res))


def rand_series(n, kind):
    if kind == "float":
        return np.array([rng.uniform(-3, 3) for _ in range(n)], dtype=np.double)
    if kind == "grid":  # many ties
        return np.array([rng.randint(-3, 3) * 0.5 for _ in range(n)], dtype=np.double)
    if kind == "int":
        return np.array([rng.randint(-4, 4) for _ in range(n)], dtype=np.int64)
    if kind == "list":
        return [rng.uniform(-2, 2) for _ in range(n)]
    if kind == "f32":
        return np.array([rng.uniform(-3, 3) for _ in range(n)], dtype=np.float32)
    raise ValueError(kind)


def rand_psi(l1, l2):
    t = rng.random()
    if t < 0.35:
        return None
    if t < 0.6:
        return rng.randint(0, max(0, min(l1, l2)))
    if t < 0.9:
        return (rng.randint(0, l1), rng.randint(0, l1), rng.randint(0, l2), rng.randint(0, l2))
    # occasionally larger than a series: exercises the error path
    return rng.randint(0, max(l1, l2) + 2)


def rand_kwargs(l1, l2):
    kw = {}
    t = rng.random()
    if t < 0.25:
        pass
    elif t < 0.35:
        kw["window"] = None
    else:
        kw["window"] = rng.randint(1, max(l1, l2) + 2)
    if rng.random() < 0.5:
        kw["penalty"] = rng.choice([0, 0.1, 0.5, 1, 2.5])
    psi = rand_psi(l1, l2)
    if psi is not None or rng.random() < 0.2:
        kw["psi"] = psi
    if rng.random() < 0.4:
        kw["max_step"] = rng.choice([0, 0.5, 1.0, 2.0, 3.5])
    if rng.random() < 0.45:
        kw["max_dist"] = rng.choice([0, 0.3, 1.0, 2.0, 4.0, 9.0])
    if rng.random() < 0.2:
        kw["use_pruning"] = True
    if rng.random() < 0.2:
        kw["max_length_diff"] = rng.randint(0, 4)
    t = rng.random()
    if t < 0.35:
        kw["inner_dist"] = "euclidean"
    elif t < 0.55:
        kw["inner_dist"] = "squared euclidean"
    if rng.random() < 0.5:
        kw["psi_neg"] = rng.random() < 0.5
    if rng.random() < 0.5:
        kw["keep_int_repr"] = rng.random() < 0.5
    return kw


class AbsCube(innerdistance.CustomInnerDist):
    """A custom inner distance (Python engine only)."""

    @staticmethod
    def inner_dist(x, y):
        return abs(x - y) ** 3

    @staticmethod
    def result(x):
        if np is not None and isinstance(x, np.ndarray):
            return np.power(x, 1.0 / 3)
        return x ** (1.0 / 3)

    @staticmethod
    def inner_val(x):
        return x ** 3


# 1. one-dimensional series, all options
for _ in range(2600):
    l1 = rng.randint(1, 13)
    l2 = rng.randint(1, 13)
    if rng.random() < 0.3:
        l2 = l1
    kind = rng.choice(["float", "float", "grid", "grid", "int", "list", "f32"])
    s1 = rand_series(l1, kind)
    s2 = rand_series(l2, kind)
    feed((kind, [float(v) for v in s1], [float(v) for v in s2]))
    call(s1, s2, **rand_kwargs(l1, l2))

# 2. systematic (l1, l2, window) sweep: every band shape, with and without psi
for l1 in range(1, 9):
    for l2 in range(1, 9):
        s1 = rand_series(l1, "grid")
        s2 = rand_series(l2, "grid")
        feed(([float(v) for v in s1], [float(v) for v in s2]))
        for window in [None] + list(range(1, max(l1, l2) + 2)):
            call(s1, s2, window=window)
            call(s1, s2, window=window, penalty=0.5, psi=min(l1, l2, 2), psi_neg=True)
            call(s1, s2, window=window, max_dist=1.5, keep_int_repr=True, psi_neg=False,
                 psi=(0, min(l1, 1), min(l2, 2), 0))
            call(s1, s2, window=window, max_step=1.0, inner_dist="euclidean", max_dist=2.0)

# 3. multivariate series
for _ in range(500):
    l1 = rng.randint(1, 10)
    l2 = rng.randint(1, 10)
    nd = rng.randint(1, 3)
    s1 = np.array([[rng.randint(-3, 3) * 0.5 for _ in range(nd)] for _ in range(l1)], dtype=np.double)
    s2 = np.array([[rng.randint(-3, 3) * 0.5 for _ in range(nd)] for _ in range(l2)], dtype=np.double)
    feed((s1.tolist(), s2.tolist()))
    kw = rand_kwargs(l1, l2)
    kw["use_ndim"] = True
    call(s1, s2, **kw)

# 4. custom inner distance object
for _ in range(300):
    l1 = rng.randint(1, 9)
    l2 = rng.randint(1, 9)
    s1 = rand_series(l1, "grid")
    s2 = rand_series(l2, "grid")
    feed(([float(v) for v in s1], [float(v) for v in s2]))
    kw = rand_kwargs(l1, l2)
    kw["inner_dist"] = AbsCube
    kw.pop("use_pruning", None)
    call(s1, s2, **kw)

# 5. the use_c dispatch at the top of warping_paths
for _ in range(400):
    l1 = rng.randint(1, 11)
    l2 = rng.randint(1, 11)
    s1 = rand_series(l1, "grid")
    s2 = rand_series(l2, "grid")
    feed(([float(v) for v in s1], [float(v) for v in s2]))
    kw = rand_kwargs(l1, l2)
    if isinstance(kw.get("psi"), int) and kw["psi"] > min(l1, l2):
        kw["psi"] = min(l1, l2)
    kw["use_c"] = True
    call(s1, s2, **kw)

# 6. empty series
for l1, l2 in [(0, 0), (0, 3), (3, 0)]:
    s1 = np.zeros(l1)
    s2 = np.ones(l2)
    call(s1, s2)
    call(s1, s2, window=2, keep_int_repr=True)

sys.stderr.write("calls=%d exceptions=%d\n" % (n_calls, n_exc))
print("DIGEST " + h.hexdigest())
