"""Demo for r5: data-flow clean-up of the pure-Python full-matrix kernel dtw.warping_paths.

Calls warping_paths (and its callers warping_path / warp / distance for cross-checks) through
the public API on seeded random inputs: equal and unequal lengths, 1-dim and n-dim, window w and
w+1, psi p and p+1 (int and 4-tuples), penalties, max_step, max_dist, pruning, both inner
distances, psi_neg / keep_int_repr.  Prints a digest of all results.
"""
import hashlib
import random
import sys

import numpy as np

from dtaidistance import dtw, dtw_ndim

results = []


def norm(value):
    if isinstance(value, np.ndarray):
        return ('nd', value.shape, value.tolist())
    if isinstance(value, (tuple, list)):
        return type(value)(norm(v) for v in value)
    if isinstance(value, np.generic):
        return value.item()
    return value


def call(tag, fn, *args, **kwargs):
    try:
        results.append((tag, repr(norm(fn(*args, **kwargs)))))
    except Exception as exc:
        results.append((tag, 'EXC ' + type(exc).__name__ + ' ' + str(exc)))


rng = random.Random(5150)
nprng = np.random.RandomState(31337)


def rand_pair(ndim=None):
    l1 = rng.randint(1, 11)
    l2 = l1 if rng.random() < 0.45 else rng.randint(1, 11)
    shape1 = (l1,) if ndim is None else (l1, ndim)
    shape2 = (l2,) if ndim is None else (l2, ndim)
    s1 = np.round(nprng.randn(*shape1) * 2, 3).astype(np.double)
    s2 = np.round(nprng.randn(*shape2) * 2, 3).astype(np.double)
    if rng.random() < 0.1:
        s2 = s1.copy()
    return s1, s2


def rand_psi(l1, l2):
    k = rng.randint(0, 3)
    m = max(1, min(l1, l2) - 1)
    if k == 0:
        return None
    if k == 1:
        return rng.randint(0, min(3, m))
    return tuple(rng.randint(0, min(3, m)) for _ in range(4))


def bump_psi(psi):
    if psi is None:
        return 1
    if isinstance(psi, int):
        return psi + 1
    return tuple(p + 1 for p in psi)


def rand_opts(l1, l2):
    opts = {}
    if rng.random() < 0.7:
        opts['window'] = rng.randint(1, 7)
    psi = rand_psi(l1, l2)
    if psi is not None:
        opts['psi'] = psi
    if rng.random() < 0.4:
        opts['penalty'] = rng.choice([0.05, 0.5, 1.5, 3.0])
    if rng.random() < 0.3:
        opts['max_step'] = rng.choice([0.5, 1.5, 3.0, 6.0])
    if rng.random() < 0.3:
        opts['max_dist'] = rng.choice([1.0, 3.0, 6.0, 12.0])
    if rng.random() < 0.2:
        opts['use_pruning'] = True
    if rng.random() < 0.15:
        opts['max_length_diff'] = rng.randint(0, 5)
    if rng.random() < 0.35:
        opts['inner_dist'] = 'euclidean'
    return opts


# 1. the kernel itself, 1-dim, with the comparable settings of the property
for trial in range(700):
    s1, s2 = rand_pair()
    opts = rand_opts(len(s1), len(s2))
    psi_neg = rng.random() < 0.5
    keep = rng.random() < 0.5
    call(('wps', trial), dtw.warping_paths, s1, s2, psi_neg=psi_neg, keep_int_repr=keep, **opts)
    call(('wps-swap', trial), dtw.warping_paths, s2, s1, psi_neg=psi_neg, keep_int_repr=keep, **opts)
    o2 = dict(opts)
    o2['window'] = opts.get('window', 1) + 1
    call(('wps-w+1', trial), dtw.warping_paths, s1, s2, psi_neg=psi_neg, keep_int_repr=keep, **o2)
    o3 = dict(opts)
    o3['psi'] = bump_psi(opts.get('psi'))
    call(('wps-psi+1', trial), dtw.warping_paths, s1, s2, psi_neg=psi_neg, keep_int_repr=keep, **o3)
    o4 = dict(opts)
    o4['penalty'] = opts.get('penalty', 0) + 0.75
    call(('wps-pen+', trial), dtw.warping_paths, s1, s2, psi_neg=psi_neg, keep_int_repr=keep, **o4)
    o5 = dict(opts)
    o5['max_step'] = opts.get('max_step', 1.0) * 2
    call(('wps-ms+', trial), dtw.warping_paths, s1, s2, psi_neg=psi_neg, keep_int_repr=keep, **o5)
    # plain lists / array-less inputs
    if trial % 7 == 0:
        call(('wps-list', trial), dtw.warping_paths, s1.tolist(), s2.tolist(), **opts)

# 2. window 1 on equal lengths (Euclidean), identity
for trial in range(80):
    n = rng.randint(1, 10)
    s1 = np.round(nprng.randn(n), 3)
    s2 = np.round(nprng.randn(n), 3)
    for inner in ('squared euclidean', 'euclidean'):
        call(('wps-w1', trial, inner), dtw.warping_paths, s1, s2, window=1, inner_dist=inner)
        call(('wps-id', trial, inner), dtw.warping_paths, s1, s1, window=rng.randint(1, 4), inner_dist=inner)

# 3. callers of the kernel
for trial in range(250):
    s1, s2 = rand_pair()
    opts = rand_opts(len(s1), len(s2))
    opts.pop('max_dist', None)
    opts.pop('use_pruning', None)
    opts.pop('max_length_diff', None)
    opts.pop('max_step', None)
    call(('wp', trial), dtw.warping_path, s1, s2, include_distance=True, **opts)
    call(('warp', trial), dtw.warp, s1, s2, **opts)
    call(('wpp', trial), dtw.warping_path_penalty, s1, s2, penalty_post=0.3, **opts)
    call(('dist', trial), dtw.distance, s1, s2, **opts)

# 4. n-dim
for trial in range(200):
    ndim = rng.randint(1, 3)
    s1, s2 = rand_pair(ndim=ndim)
    opts = rand_opts(len(s1), len(s2))
    psi_neg = rng.random() < 0.5
    keep = rng.random() < 0.5
    call(('wpsnd', trial), dtw_ndim.warping_paths, s1, s2, psi_neg=psi_neg, keep_int_repr=keep, **opts)
    call(('wpsnd-swap', trial), dtw_ndim.warping_paths, s2, s1, psi_neg=psi_neg, keep_int_repr=keep, **opts)
    o2 = dict(opts)
    o2['window'] = opts.get('window', 1) + 1
    call(('wpsnd-w+1', trial), dtw_ndim.warping_paths, s1, s2, psi_neg=psi_neg, keep_int_repr=keep, **o2)

digest = hashlib.sha256(repr(results).encode('utf-8')).hexdigest()
print('NRESULTS', len(results))
print('DIGEST', digest)
sys.exit(0)
