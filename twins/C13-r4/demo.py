# -*- coding: UTF-8 -*-
"""Randomised bit-for-bit comparison for property C13 (subsequence alignment).

Exercises SubsequenceAlignment.align (all four engine/dimension branches), the
matching function, best_match, the k-best / range-factor / knee iterators
(repeated and interleaved), dtw.best_path and the warping-paths kernels
(Python and C) through the public API on seeded random inputs.
Prints one line: DIGEST <sha256 of the repr of all results>.
"""
import hashlib
import itertools
import random
import sys

import numpy as np

from dtaidistance import dtw, dtw_ndim
from dtaidistance.subsequence.subsequencealignment import (
    subsequence_alignment, SubsequenceAlignment)

RESULTS = []


def enc(x):
    """Encode a result so that its repr is bit-exact."""
    if x is None or isinstance(x, (bool, str)):
        return x
    if isinstance(x, (int, np.integer)):
        return int(x)
    if isinstance(x, (float, np.floating)):
        return float(x).hex()
    if isinstance(x, np.ndarray):
        return (x.shape, str(x.dtype), hashlib.sha256(np.ascontiguousarray(x).tobytes()).hexdigest())
    if isinstance(x, (list, tuple)):
        return [enc(v) for v in x]
    return repr(x)


def record(tag, fn):
    try:
        RESULTS.append((tag, enc(fn())))
    except Exception as exc:  # exceptions are part of the observable behaviour
        RESULTS.append((tag, 'EXC', type(exc).__name__, str(exc)[:80]))


def rnd_series(rng, n, ndim, style):
    shape = (n,) if ndim == 0 else (n, ndim)
    if style == 0:
        a = rng.normal(size=shape)
    elif style == 1:
        a = rng.integers(0, 4, size=shape).astype(np.double)  # many ties
    elif style == 2:
        a = np.cumsum(rng.normal(size=shape), axis=0)
    else:
        a = np.round(rng.normal(size=shape) * 2) / 2
    return np.ascontiguousarray(a, dtype=np.double)


def match_info(m):
    return [m.idx, m.value, m.distance, list(m.segment), [tuple(int(v) for v in p) for p in m.path]]


def run_alignment(tag, query, series, penalty, use_c, rng):
    try:
        sa = subsequence_alignment(query, series, penalty=penalty, use_c=use_c)
    except Exception as exc:
        RESULTS.append((tag + ':create', 'EXC', type(exc).__name__, str(exc)[:80]))
        return
    record(tag + ':paths', lambda: sa.warping_paths())
    record(tag + ':mf', lambda: sa.matching_function())
    record(tag + ':best', lambda: match_info(sa.best_match()))
    # second align() must be a no-op
    sa.align()
    record(tag + ':mf2', lambda: sa.matching_function())
    n = len(series)
    for e in sorted(set([0, n - 1, n // 2, int(rng.integers(0, n))])):
        record(tag + ':seg%d' % e, lambda: sa.matching_function_segment(e))
        record(tag + ':bp%d' % e, lambda: [tuple(int(v) for v in p) for p in sa.matching_function_bestpath(e)])
        record(tag + ':sp%d' % e, lambda: sa.matching_function_startpoint(e))
        record(tag + ':ep%d' % e, lambda: sa.matching_function_endpoint(e))
    lq = len(query)
    confs = [(1, 0, 2, None), (3, 0, 2, None), (None, 0, 1, None), (4, 1, 1, None),
             (5, 2, 2, lq + 2), (None, lq, 1, 2 * lq), (2, 0, None, None), (6, 0, max(1, lq - 1), lq + 1)]
    for (k, overlap, minlength, maxlength) in confs:
        record(tag + ':kb%r' % ((k, overlap, minlength, maxlength),),
               lambda: [match_info(m) for m in sa.kbest_matches(k=k, overlap=overlap,
                                                                 minlength=minlength, maxlength=maxlength)])
    # fast variants switch the engine temporarily
    record(tag + ':kbf', lambda: [match_info(m) for m in sa.kbest_matches_fast(k=3, overlap=1, minlength=1)])
    record(tag + ':bmf', lambda: match_info(sa.best_match_fast()))
    record(tag + ':use_c', lambda: sa.use_c)
    # interleaved iteration over the same alignment object
    def interleaved():
        it1 = sa.kbest_matches(k=4, overlap=0, minlength=1)
        it2 = sa.kbest_matches(k=None, overlap=1, minlength=2, maxlength=lq * 3)
        out = []
        for a, b in itertools.zip_longest(it1, it2):
            out.append(None if a is None else match_info(a))
            out.append(None if b is None else match_info(b))
            if len(out) > 16:
                break
        return out
    record(tag + ':inter', interleaved)
    record(tag + ':rf', lambda: [match_info(m) for m in sa.best_matches(max_rangefactor=2, overlap=0, minlength=1)])
    record(tag + ':rf3', lambda: [match_info(m) for m in sa.best_matches(max_rangefactor=1.5, overlap=1,
                                                                         minlength=2, maxlength=2 * lq)])
    record(tag + ':knee', lambda: [match_info(m) for m in sa.best_matches_knee(alpha=0.3, minlength=1)])
    # reset + re-align, and align_fast on a fresh object
    sa.reset()
    sa.align()
    record(tag + ':mf3', lambda: sa.matching_function())
    sb = SubsequenceAlignment(query, series, penalty=penalty, use_c=False)
    record(tag + ':align_fast', lambda: (sb.align_fast(), sb.warping_paths(), sb.matching_function(), sb.use_c))
    record(tag + ':iter_without_align', lambda: [match_info(m) for m in SubsequenceAlignment(
        query, series, penalty=penalty, use_c=use_c).kbest_matches(k=2, minlength=1)])


def run_kernels(tag, s1, s2, rng, ndim):
    mod = dtw if ndim == 0 else dtw_ndim
    l1, l2 = len(s1), len(s2)
    windows = [None, 1, 2, max(1, abs(l1 - l2)), max(l1, l2) + 3]
    lm = min(l1, l2)
    # psi values are kept within the series lengths (larger values read out of bounds in the C engine)
    psis = [None, 0, min(1, lm), min(2, lm), (0, 0, l2, l2), (min(1, l1), 0, min(2, l2), min(1, l2)),
            (l1, l1, 0, 0), (min(2, l1), min(3, l1), min(1, l2), 0)]
    for _ in range(6):
        kw = {}
        w = windows[int(rng.integers(0, len(windows)))]
        if w is not None:
            kw['window'] = w
        ps = psis[int(rng.integers(0, len(psis)))]
        if ps is not None:
            kw['psi'] = ps
        if rng.random() < 0.6:
            kw['penalty'] = [0.0, 0.1, 0.5, 2.0][int(rng.integers(0, 4))]
        if rng.random() < 0.25:
            kw['max_step'] = [0.5, 1.5, 3.0][int(rng.integers(0, 3))]
        if rng.random() < 0.25:
            kw['max_dist'] = [1.0, 2.5, 6.0][int(rng.integers(0, 3))]
        if rng.random() < 0.15:
            kw['use_pruning'] = True
        psi_neg = bool(rng.random() < 0.5)
        keep = bool(rng.random() < 0.5)
        for fast in (False, True):
            fn = mod.warping_paths_fast if fast else mod.warping_paths
            record(tag + ':wp%d%r%r%r' % (fast, sorted(kw.items()), psi_neg, keep),
                   lambda: fn(s1, s2, psi_neg=psi_neg, keep_int_repr=keep, **kw))
        if ndim == 0:
            def bp():
                _, paths = dtw.warping_paths(s1, s2, psi_neg=psi_neg, keep_int_repr=keep, **kw)
                if paths is None:
                    return None
                out = [dtw.best_path(paths)]
                r = int(rng.integers(0, l1 + 1))
                c = int(rng.integers(0, l2 + 1))
                out.append(dtw.best_path(paths, row=r, col=c, penalty=kw.get('penalty', 0) ** 2 if keep else 0))
                out.append(dtw.best_path(paths, col=c))
                out.append(dtw.best_path(paths, row=r, use_max=True))
                return [[tuple(int(v) for v in p) for p in path] for path in out]
            record(tag + ':bestpath', bp)


def main():
    rng = np.random.default_rng(20130613)
    random.seed(13)
    penalties = [0, 0.1, 0.25, 1.0, 3.5]
    case = 0
    for ndim in (0, 1, 2, 3):
        for rep in range(60):
            lq = int(rng.integers(1, 8))
            ls = int(rng.integers(1, 24))
            if rep % 7 == 0:
                ls = lq  # equal lengths
            if rep % 11 == 3:
                lq, ls = max(lq, ls), min(lq, ls)  # query longer than series
            style = int(rng.integers(0, 4))
            query = rnd_series(rng, lq, ndim, style)
            series = rnd_series(rng, ls, ndim, style)
            if rng.random() < 0.5 and ls >= lq:
                # plant (noisy) copies of the query
                pos = int(rng.integers(0, ls - lq + 1))
                series[pos:pos + lq] = query + (0 if rng.random() < 0.5 else rng.normal(size=query.shape) * 0.05)
            penalty = penalties[int(rng.integers(0, len(penalties)))]
            for use_c in (False, True):
                case += 1
                tag = 'sa[%d,nd%d,q%d,s%d,p%r,c%d]' % (case, ndim, lq, ls, penalty, use_c)
                run_alignment(tag, query, series, penalty, use_c, rng)
            if rep % 2 == 0:
                run_kernels('k[%d,nd%d]' % (case, ndim), query, series, rng, ndim)
                run_kernels('kT[%d,nd%d]' % (case, ndim), series, query, rng, ndim)
    # plain python lists as input (1-D only)
    for rep in range(6):
        q = [float(v) for v in rng.integers(0, 3, size=int(rng.integers(1, 5)))]
        s = [float(v) for v in rng.integers(0, 3, size=int(rng.integers(3, 15)))]
        for use_c in (False, True):
            run_alignment('list[%d,c%d]' % (rep, use_c), q, s, 0.1, use_c, rng)
    blob = repr(RESULTS).encode('utf-8')
    nexc = sum(1 for r in RESULTS if len(r) > 2 and r[1] == 'EXC')
    sys.stderr.write('results=%d exceptions=%d\n' % (len(RESULTS), nexc))
    print('DIGEST ' + hashlib.sha256(blob).hexdigest())
    return 0


if __name__ == '__main__':
    sys.exit(main())
