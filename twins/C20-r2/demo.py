#!/usr/bin/env python
"""Randomised bit-for-bit comparison of everything that goes through
SeriesContainer.c_data_compat / util_numpy.verify_np_array /
dtw_cc.dtw_series_from_data, over many container representations.

Prints one line: DIGEST <sha256>
"""
import array
import hashlib
import logging
import random
import sys

import numpy as np

from dtaidistance import dtw, dtw_ndim, ed, util, util_numpy, dtw_barycenter
from dtaidistance import dtw_cc, dtw_cc_omp, dtw_cc_numpy
from dtaidistance.util import SeriesContainer

logging.disable(logging.CRITICAL)

RESULTS = []


def canon(o):
    """Canonical, address-free, bit-exact representation."""
    if isinstance(o, np.ndarray):
        return ('nd', o.shape, str(o.dtype), bool(o.flags.c_contiguous), bool(o.flags.f_contiguous),
                hashlib.sha256(np.ascontiguousarray(o).tobytes()).hexdigest())
    if isinstance(o, np.generic):
        return ('npg', str(o.dtype), o.tobytes().hex())
    if isinstance(o, array.array):
        return ('arr', o.typecode, len(o), hashlib.sha256(o.tobytes()).hexdigest())
    if isinstance(o, float):
        return ('f', o.hex())
    if isinstance(o, (bool, int, str, type(None))):
        return o
    if isinstance(o, (list, tuple)):
        return (type(o).__name__,) + tuple(canon(x) for x in o)
    if isinstance(o, dict):
        return ('dict',) + tuple((canon(k), canon(v)) for k, v in sorted(o.items(), key=lambda kv: repr(kv[0])))
    if isinstance(o, SeriesContainer):
        return ('SC', o.support_ndim, canon(o.detected_ndim), canon(o.series))
    if isinstance(o, dtw_cc.DTWSeriesPointers):
        return ('DTWSeriesPointers',)
    if isinstance(o, dtw_cc.DTWSeriesMatrixNDim):
        return ('DTWSeriesMatrixNDim', o.nb_rows, o.nb_cols, o.nb_dims)
    if isinstance(o, dtw_cc.DTWSeriesMatrix):
        return ('DTWSeriesMatrix', o.nb_rows, o.nb_cols)
    if isinstance(o, memoryview):
        return ('mv', o.shape, o.format, hashlib.sha256(o.tobytes()).hexdigest())
    return ('obj', type(o).__name__)


def rec(tag, fn):
    try:
        r = fn()
    except BaseException as e:  # noqa
        if isinstance(e, (KeyboardInterrupt, SystemExit)):
            raise
        r = ('EXC', type(e).__name__, str(e))
    RESULTS.append((tag, canon(r)))
    return r


def snapshot(c):
    return canon(c)


# ---------------------------------------------------------------------------
# Container factories
# ---------------------------------------------------------------------------

def strided_1d(rng, v, step):
    base = rng.normal(size=len(v) * step + 3)
    base[1:1 + len(v) * step:step] = v
    return base[1:1 + len(v) * step:step]


def containers_1d(rng, rows):
    """rows: list of 1-D float64 arrays (possibly different lengths)."""
    out = {}
    out['list_list'] = [list(map(float, r)) for r in rows]
    out['tuple_list'] = tuple(list(map(float, r)) for r in rows)
    out['list_tuple'] = [tuple(map(float, r)) for r in rows]
    out['list_arr'] = [array.array('d', r) for r in rows]
    out['tuple_arr'] = tuple(array.array('d', r) for r in rows)
    out['list_np'] = [np.array(r) for r in rows]
    out['tuple_np'] = tuple(np.array(r) for r in rows)
    out['list_np_str2'] = [strided_1d(rng, r, 2) for r in rows]
    out['list_np_str3'] = [strided_1d(rng, r, 3) for r in rows]
    out['list_np_rev'] = [np.array(r[::-1])[::-1] for r in rows]
    out['list_mixed'] = [array.array('d', r) if i % 2 else (np.array(r) if i % 4 else strided_1d(rng, r, 2))
                         for i, r in enumerate(rows)]
    out['list_np_then_list'] = [np.array(rows[0])] + [list(map(float, r)) for r in rows[1:]]
    out['list_arr_then_list'] = [array.array('d', rows[0])] + [list(map(float, r)) for r in rows[1:]]
    if len({len(r) for r in rows}) == 1:
        m = np.array(rows)
        out['mat_C'] = m.copy(order='C')
        out['mat_F'] = np.asfortranarray(m)
        big = rng.normal(size=(m.shape[0] * 2 + 1, m.shape[1] * 3 + 2))
        big[1:1 + 2 * m.shape[0]:2, 2:2 + 3 * m.shape[1]:3] = m
        out['mat_strided'] = big[1:1 + 2 * m.shape[0]:2, 2:2 + 3 * m.shape[1]:3]
        out['mat_T'] = np.ascontiguousarray(m.T).T
        out['mat_rowrev'] = np.ascontiguousarray(m[::-1])[::-1]
        out['mat_rows_of_C'] = [row for row in m.copy()]
        out['mat_rows_of_F'] = [row for row in np.asfortranarray(m)]
        out['matrix'] = np.asmatrix(m.copy()) if hasattr(np, 'asmatrix') else m.copy()
    return out


def containers_nd(rng, rows):
    """rows: list of 2-D float64 arrays (len_i, ndim)."""
    out = {}
    out['list_list'] = [[list(map(float, p)) for p in r] for r in rows]
    out['list_np'] = [np.array(r) for r in rows]
    out['tuple_np'] = tuple(np.array(r) for r in rows)
    out['list_np_F'] = [np.asfortranarray(r) for r in rows]
    out['list_np_T'] = [np.ascontiguousarray(r.T).T for r in rows]

    def str2(r):
        big = rng.normal(size=(r.shape[0] * 2 + 1, r.shape[1] * 2 + 1))
        big[1:1 + 2 * r.shape[0]:2, 0:2 * r.shape[1]:2] = r
        return big[1:1 + 2 * r.shape[0]:2, 0:2 * r.shape[1]:2]
    out['list_np_str'] = [str2(r) for r in rows]
    out['list_mixed'] = [np.array(r) if i % 2 else np.asfortranarray(r) for i, r in enumerate(rows)]
    if len({r.shape for r in rows}) == 1:
        t = np.array(rows)
        out['t_C'] = t.copy(order='C')
        out['t_F'] = np.asfortranarray(t)
        out['t_swap'] = np.ascontiguousarray(t.swapaxes(0, 2)).swapaxes(0, 2)
        out['t_swap12'] = np.ascontiguousarray(t.swapaxes(1, 2)).swapaxes(1, 2)
        big = rng.normal(size=(t.shape[0] * 2, t.shape[1] * 2 + 1, t.shape[2] * 3))
        big[0::2, 1:1 + 2 * t.shape[1]:2, 1::3] = t
        out['t_strided'] = big[0::2, 1:1 + 2 * t.shape[1]:2, 1::3]
    return out


# ---------------------------------------------------------------------------
# Checks
# ---------------------------------------------------------------------------

def sc_state(sc, orig):
    """State of a SeriesContainer after c_data_compat, including identity of elements."""
    s = sc.series
    ident = None
    if isinstance(s, list) and isinstance(orig, (list, tuple)):
        ident = tuple(a is b for a, b in zip(s, orig))
    return (canon(sc), s is orig, ident)


def run_matrix_calls(tag, c, rng, pyrng, nd=False):
    before = snapshot(c)
    n = len(c)
    mod = dtw_ndim if nd else dtw
    blocks = [None, ((0, max(1, n // 2)), (0, n)), ((1, n), (0, n - 1))]
    if n >= 3:
        blocks.append(((0, n), (1, n), False))
    for use_c in (True, False):
        for parallel in ((False, True) if use_c else (False,)):
            for compact in (True, False):
                for bi, block in enumerate(blocks):
                    opts = {}
                    k = pyrng.randrange(5)
                    if k == 1:
                        opts['window'] = pyrng.randrange(1, 5)
                    elif k == 2:
                        opts['max_dist'] = pyrng.uniform(0.5, 4.0)
                    elif k == 3:
                        opts['psi'] = pyrng.randrange(0, 3)
                    elif k == 4:
                        opts['penalty'] = pyrng.uniform(0.0, 1.0)
                        opts['max_step'] = pyrng.uniform(0.5, 3.0)
                    if not use_c and bi > 1:
                        continue
                    rec((tag, 'dm', use_c, parallel, compact, bi, tuple(sorted(opts.items()))),
                        lambda: mod.distance_matrix(c, use_c=use_c, parallel=parallel, compact=compact,
                                                    block=block, **opts))
                    RESULTS.append((tag, 'unchanged', snapshot(c) == before))
    rec((tag, 'dm_fast'), lambda: mod.distance_matrix_fast(c))
    rec((tag, 'dm_fast_triu'), lambda: mod.distance_matrix_fast(c, only_triu=True, window=3))
    RESULTS.append((tag, 'unchanged', snapshot(c) == before))

    # Direct use of the container object, support_ndim True / False, repeated calls
    for support_ndim in (True, False):
        def direct():
            sc = SeriesContainer(c, support_ndim=support_ndim)
            r1 = sc.c_data_compat()
            st1 = sc_state(sc, c)
            r2 = sc.c_data_compat()
            st2 = sc_state(sc, c)
            d = None
            if nd:
                d = dtw_cc.distance_matrix_ndim(sc, sc.detected_ndim if sc.detected_ndim else 1)
            else:
                d = dtw_cc.distance_matrix(sc)
            return (canon(r1), st1, canon(r2), st2, d)
        rec((tag, 'direct', support_ndim), direct)
        rec((tag, 'wrap', support_ndim),
            lambda: sc_state(SeriesContainer.wrap(SeriesContainer(c), support_ndim=support_ndim), c))

        def wrapped_compat():
            sc = SeriesContainer.wrap(SeriesContainer(c), support_ndim=support_ndim)
            r = sc.c_data_compat()
            return canon(r), sc_state(sc, c)
        rec((tag, 'wrap_compat', support_ndim), wrapped_compat)
    RESULTS.append((tag, 'unchanged', snapshot(c) == before))

    # Without the numpy-specific extension
    saved = util.dtw_cc_numpy
    util.dtw_cc_numpy = None
    try:
        def nonumpyext():
            sc = SeriesContainer(c)
            r = sc.c_data_compat()
            return canon(r), sc_state(sc, c)
        rec((tag, 'no_cc_numpy'), nonumpyext)
        rec((tag, 'no_cc_numpy_dm'), lambda: mod.distance_matrix(c, use_c=True, compact=True))
    finally:
        util.dtw_cc_numpy = saved

    # util believing NumPy is not importable
    saved_np = util.np
    util.np = None
    try:
        def nonumpy():
            sc = SeriesContainer(c)
            st0 = (canon(sc.detected_ndim), type(sc.series).__name__, sc.series is c)
            r = sc.c_data_compat()
            d = dtw_cc.distance_matrix(sc) if not nd else None
            return st0, canon(r), type(sc.series).__name__, sc.series is c, d
        rec((tag, 'no_numpy'), nonumpy)
    finally:
        util.np = saved_np

    # Raw entry point used by the Cython wrappers
    def raw(force):
        r = dtw_cc.dtw_series_from_data(c, force_pointers=force)
        return canon(r)
    rec((tag, 'from_data', False), lambda: raw(False))
    if isinstance(c, np.ndarray) or (isinstance(c, (list, tuple)) and all(hasattr(x, 'ctypes') for x in c)):
        rec((tag, 'from_data', True), lambda: raw(True))
    # Raw containers handed directly to the Cython distance matrix (only layouts for which all
    # reads stay inside the underlying buffers)
    if isinstance(c, np.ndarray) and c.flags.c_contiguous:
        if nd:
            rec((tag, 'cc_dm_raw'), lambda: dtw_cc.distance_matrix_ndim(c, c.shape[-1]))
            rec((tag, 'omp_dm_raw'), lambda: dtw_cc_omp.distance_matrix_ndim(c, c.shape[-1]))
        else:
            rec((tag, 'cc_dm_raw'), lambda: dtw_cc.distance_matrix(c))
            rec((tag, 'omp_dm_raw'), lambda: dtw_cc_omp.distance_matrix(c))
    elif isinstance(c, (list, tuple)) and all(isinstance(x, np.ndarray) and x.flags.c_contiguous for x in c):
        if nd:
            rec((tag, 'cc_dm_raw'), lambda: dtw_cc.distance_matrix_ndim(c, c[0].shape[-1]))
            rec((tag, 'omp_dm_raw'), lambda: dtw_cc_omp.distance_matrix_ndim(c, c[0].shape[-1]))
        else:
            rec((tag, 'cc_dm_raw'), lambda: dtw_cc.distance_matrix(c))
            rec((tag, 'omp_dm_raw'), lambda: dtw_cc_omp.distance_matrix(c))
    RESULTS.append((tag, 'unchanged', snapshot(c) == before))


def run_dba(tag, c, rng, nd=False):
    before = snapshot(c)
    n = len(c)
    mask = np.array([i % 3 != 1 for i in range(n)])
    for use_c in (True, False):
        rec((tag, 'dba_loop', use_c),
            lambda: dtw_barycenter.dba_loop(c, c=None, max_it=3, thr=0.0001, use_c=use_c))
        rec((tag, 'dba_loop_mask', use_c),
            lambda: dtw_barycenter.dba_loop(c, c=None, max_it=2, thr=None, mask=mask, use_c=use_c,
                                            keep_averages=True, window=4))
        rec((tag, 'dba', use_c), lambda: dtw_barycenter.dba(c, None, use_c=use_c))
        RESULTS.append((tag, 'unchanged', snapshot(c) == before))
    if not nd:
        try:
            c0 = np.array(c[2], dtype=float)
        except Exception:
            c0 = None
        if c0 is not None:
            c0s = np.repeat(c0, 2)[::2]
            c0_before = snapshot(c0s)
            rec((tag, 'dba_loop_c0', True),
                lambda: dtw_barycenter.dba_loop(c, c=c0s, max_it=2, thr=None, use_c=True))
            rec((tag, 'dba_c0', True), lambda: dtw_barycenter.dba(c, c0s, use_c=True))
            RESULTS.append((tag, 'c0 unchanged', snapshot(c0s) == c0_before))
    RESULTS.append((tag, 'unchanged', snapshot(c) == before))


def pair_forms(rng, v):
    """Different representations of one 1-D series."""
    v = np.asarray(v, dtype=float)
    forms = {
        'list': list(map(float, v)),
        'tuple': tuple(map(float, v)),
        'arr': array.array('d', v),
        'np': v.copy(),
        'np_str2': strided_1d(rng, v, 2),
        'np_str5': strided_1d(rng, v, 5),
        'np_rev': np.array(v[::-1])[::-1],
        'np_col': np.asfortranarray(np.tile(v, (3, 1)))[1, :],
        'np_bcast': None,
    }
    del forms['np_bcast']
    return forms


def pair_forms_nd(rng, v):
    v = np.asarray(v, dtype=float)
    big = rng.normal(size=(v.shape[0] * 2, v.shape[1] * 2))
    big[::2, 1::2] = v
    return {
        'list': [list(map(float, p)) for p in v],
        'np': v.copy(),
        'np_F': np.asfortranarray(v),
        'np_T': np.ascontiguousarray(v.T).T,
        'np_str': big[::2, 1::2],
        'np_rev': np.ascontiguousarray(v[::-1])[::-1],
    }


def run_pairs(tag, a, b, rng, pyrng):
    fa = pair_forms(rng, a)
    fb = pair_forms(rng, b)
    for ka, s1 in fa.items():
        for kb, s2 in fb.items():
            b1, b2 = snapshot(s1), snapshot(s2)
            t = (tag, ka, kb)
            opts = {}
            k = pyrng.randrange(4)
            if k == 1:
                opts['window'] = pyrng.randrange(1, 6)
            elif k == 2:
                opts['psi'] = pyrng.randrange(0, 3)
            elif k == 3:
                opts['max_dist'] = pyrng.uniform(0.5, 5.0)
            ot = tuple(sorted(opts.items()))
            rec(t + ('distance_fast', ot), lambda: dtw.distance_fast(s1, s2, **opts))
            rec(t + ('distance_c', ot), lambda: dtw.distance(s1, s2, use_c=True, **opts))
            rec(t + ('distance_py', ot), lambda: dtw.distance(s1, s2, **opts))
            rec(t + ('wps_fast', ot), lambda: dtw.warping_paths_fast(s1, s2, **opts))
            rec(t + ('wps_fast_compact', ot), lambda: dtw.warping_paths_fast(s1, s2, compact=True, **opts))
            rec(t + ('wp_fast', ot), lambda: dtw.warping_path_fast(s1, s2, include_distance=True, **opts))
            rec(t + ('wpa_fast',), lambda: dtw.warping_paths_affinity_fast(s1, s2, gamma=0.7, tau=0.2, delta=-0.3,
                                                                          delta_factor=0.8))
            rec(t + ('lb_keogh_c', ot), lambda: dtw.lb_keogh(s1, s2, use_c=True, **opts))
            rec(t + ('ub_c',), lambda: dtw.ub_euclidean(s1, s2))
            rec(t + ('ed_fast',), lambda: ed.distance_fast(s1, s2))
            rec(t + ('ed',), lambda: ed.distance(s1, s2))
            rec(t + ('args_to_c',), lambda: dtw.warping_path_args_to_c(s1, s2, **opts))
            RESULTS.append((t, 'unchanged', snapshot(s1) == b1, snapshot(s2) == b2))


def run_pairs_nd(tag, a, b, rng):
    fa = pair_forms_nd(rng, a)
    fb = pair_forms_nd(rng, b)
    for ka, s1 in fa.items():
        for kb, s2 in fb.items():
            b1, b2 = snapshot(s1), snapshot(s2)
            t = (tag, ka, kb)
            rec(t + ('nd_distance_fast',), lambda: dtw_ndim.distance_fast(s1, s2))
            rec(t + ('nd_distance',), lambda: dtw_ndim.distance(s1, s2))
            rec(t + ('nd_wps_fast',), lambda: dtw_ndim.warping_paths_fast(s1, s2))
            rec(t + ('nd_wp',), lambda: dtw_ndim.warping_path(s1, s2))
            rec(t + ('nd_ed',), lambda: ed.distance(s1, s2, use_ndim=True))
            RESULTS.append((t, 'unchanged', snapshot(s1) == b1, snapshot(s2) == b2))


def run_verify(tag, rng):
    objs = {
        'list': [1.0, 2.0],
        'tuple': (1.0, 2.0),
        'arr': array.array('d', [1.0, 2.0]),
        'none': None,
        'int': 3,
        'npfloat': np.float64(2.5),
        'npint': np.int32(7),
        '0d': np.array(1.5),
        '1d': rng.normal(size=7),
        '1d_str': rng.normal(size=14)[::2],
        '1d_rev': rng.normal(size=7)[::-1],
        '1d_len1_str': rng.normal(size=4)[1:2:2],
        '1d_empty': np.zeros((0,)),
        '2d_C': rng.normal(size=(4, 3)),
        '2d_F': np.asfortranarray(rng.normal(size=(4, 3))),
        '2d_T': rng.normal(size=(4, 3)).T,
        '2d_col': rng.normal(size=(4, 1))[:, 0],
        '2d_1row_F': np.asfortranarray(rng.normal(size=(1, 5))),
        '3d_swap': rng.normal(size=(2, 3, 4)).swapaxes(0, 1),
        'int_arr_str': np.arange(10)[::3],
        'f32_str': rng.normal(size=8).astype(np.float32)[::2],
        'matrix': np.asmatrix(rng.normal(size=(2, 3))).T,
    }
    ro = rng.normal(size=10)[::2]
    ro.flags.writeable = False
    objs['readonly_str'] = ro
    for k, o in objs.items():
        def f():
            before = snapshot(o)
            r = util_numpy.verify_np_array(o)
            wr = r.flags.writeable if isinstance(r, np.ndarray) else None
            return (canon(r), r is o, type(r).__name__, wr, snapshot(o) == before)
        rec((tag, 'verify', k), f)


def main():
    seed = 20200
    pyrng = random.Random(seed)
    for rep in range(int(__import__("os").environ.get("DEMO_REPS", "6"))):
        rng = np.random.default_rng(seed + rep)
        n = int(rng.integers(3, 7))
        length = int(rng.integers(4, 12))
        # 1-D, equal length and variable length
        rows_eq = [np.round(rng.normal(size=length) * 2, int(rng.integers(0, 3))) for _ in range(n)]
        rows_var = [rng.normal(size=int(rng.integers(3, 12))) for _ in range(n)]
        for name, rows in (('eq', rows_eq), ('var', rows_var)):
            for cname, c in containers_1d(rng, rows).items():
                tag = (rep, '1d', name, cname)
                run_matrix_calls(tag, c, rng, pyrng, nd=False)
                if rep < 3:
                    run_dba(tag, c, rng, nd=False)
        # n-D
        ndim = int(rng.integers(2, 4))
        rows_eq = [rng.normal(size=(length, ndim)) for _ in range(n)]
        rows_var = [rng.normal(size=(int(rng.integers(3, 10)), ndim)) for _ in range(n)]
        for name, rows in (('eq', rows_eq), ('var', rows_var)):
            for cname, c in containers_nd(rng, rows).items():
                tag = (rep, 'nd', name, cname)
                run_matrix_calls(tag, c, rng, pyrng, nd=True)
                if rep < 3:
                    run_dba(tag, c, rng, nd=True)
        # pairs
        a = rng.normal(size=int(rng.integers(3, 14)))
        b = rng.normal(size=int(rng.integers(3, 14)))
        run_pairs((rep, 'pair'), a, b, rng, pyrng)
        a = rng.normal(size=(int(rng.integers(3, 9)), ndim))
        b = rng.normal(size=(int(rng.integers(3, 9)), ndim))
        run_pairs_nd((rep, 'pair_nd'), a, b, rng)
        run_verify((rep, 'verify'), rng)

    # History: one SeriesContainer reused through a sequence of different calls
    rng = np.random.default_rng(seed + 99)
    m = np.asfortranarray(rng.normal(size=(5, 9)))
    views = [strided_1d(rng, r, 2) for r in m]
    for cname, c in (('F', m), ('views', views)):
        before = snapshot(c)
        sc = SeriesContainer(c)
        seq = []
        for step in range(3):
            seq.append(rec(('hist', cname, step, 'fast'), lambda: dtw.distance_matrix_fast(sc, compact=True)))
            seq.append(rec(('hist', cname, step, 'py'), lambda: dtw.distance_matrix(sc, compact=True)))
            seq.append(rec(('hist', cname, step, 'dba'), lambda: dtw_barycenter.dba_loop(sc, max_it=2, use_c=True)))
            seq.append(rec(('hist', cname, step, 'state'), lambda: sc_state(sc, c)))
        RESULTS.append(('hist', cname, 'unchanged', snapshot(c) == before))

    # Odd inputs straight into dtw_cc.dtw_series_from_data
    rng = np.random.default_rng(seed + 123)
    odd = {
        'set_np': {1.0, 2.0},
        'empty_list': [],
        'empty_tuple': (),
        'none': None,
        'int': 5,
        'str': 'abc',
        '1d': rng.normal(size=5),
        '2d': rng.normal(size=(3, 5)),
        '2d_F': np.asfortranarray(rng.normal(size=(3, 5))),
        '2d_int': np.arange(12).reshape(3, 4),
        '2d_f32': rng.normal(size=(3, 4)).astype(np.float32),
        '3d': rng.normal(size=(3, 5, 2)),
        '3d_F': np.asfortranarray(rng.normal(size=(3, 5, 2))),
        '4d': rng.normal(size=(2, 3, 4, 2)),
        '2d_empty': np.zeros((0, 4)),
        'list_np_ok': [rng.normal(size=4), rng.normal(size=6)],
        'list_np_then_none': [rng.normal(size=4), None],
        'list_2d': [rng.normal(size=(4, 2)), rng.normal(size=(6, 2))],
        'arr': array.array('d', [1.0, 2.0, 3.0]),
        'mv2d': memoryview(rng.normal(size=(3, 4))),
    }
    for k, o in odd.items():
        for force in (False, True, 0, 1, None, 'x', ''):
            before = snapshot(o)
            rec(('odd', k, repr(force)), lambda: canon(dtw_cc.dtw_series_from_data(o, force_pointers=force)))
            rec(('odd_pos', k, repr(force)), lambda: canon(dtw_cc.dtw_series_from_data(o, force)))
            RESULTS.append(('odd', k, repr(force), 'unchanged', snapshot(o) == before))
        rec(('odd_default', k), lambda: canon(dtw_cc.dtw_series_from_data(o)))
    for k in ('2d', '3d', 'list_np_ok', 'list_2d'):
        o = odd[k]
        p1 = rec(('odd_dm', k, 'prebuilt'), lambda: dtw_cc.distance_matrix(dtw_cc.dtw_series_from_data(o))
                 if k in ('2d', 'list_np_ok') else
                 dtw_cc.distance_matrix_ndim(dtw_cc.dtw_series_from_data(o, force_pointers=(k == 'list_2d')), 2))
        rec(('odd_dm_omp', k, 'prebuilt'), lambda: dtw_cc_omp.distance_matrix(dtw_cc.dtw_series_from_data(o))
            if k in ('2d', 'list_np_ok') else
            dtw_cc_omp.distance_matrix_ndim(dtw_cc.dtw_series_from_data(o, force_pointers=True), 2))

    blob = repr(RESULTS).encode()
    n_exc = sum(1 for r in RESULTS if isinstance(r[-1], tuple) and len(r[-1]) > 0 and r[-1][0] == 'tuple'
                and len(r[-1]) > 1 and r[-1][1] == 'EXC')
    changed = [r for r in RESULTS if len(r) >= 3 and isinstance(r[1], str) and 'unchanged' in r[1] and r[2] is not True]
    sys.stderr.write('records=%d exceptions=%d inputs_changed=%d\n' % (len(RESULTS), n_exc, len(changed)))
    print('DIGEST ' + hashlib.sha256(blob).hexdigest())
    return 0


if __name__ == '__main__':
    sys.exit(main())
