#!/usr/bin/env python
"""Randomised bit-for-bit comparison for refactoring r4
(dtw_cc.distance_matrix / dtw_cc.distance_matrix_ndim).

Calls the distance-matrix routines through the public API (dtw.distance_matrix,
dtw.distance_matrix_fast, dtw_ndim.distance_matrix(_fast), clustering helpers)
and directly on the extension module, for every container representation x
block x settings combination, records results bitwise, checks the inputs
bitwise after the call, and repeats / interleaves calls on shared objects.
Prints `DIGEST <sha256>`.
"""
import array
import contextlib
import hashlib
import io
import logging
import os
import random
import subprocess
import sys

import numpy as np

logging.disable(logging.CRITICAL)

from dtaidistance import dtw, dtw_ndim
from dtaidistance.util import SeriesContainer
from dtaidistance import dtw_cc


def canon(o):
    if isinstance(o, np.ndarray):
        return ('nd', str(o.dtype), o.shape, np.ascontiguousarray(o).tobytes().hex())
    if isinstance(o, np.generic):
        return ('ng', str(o.dtype), o.tobytes().hex())
    if isinstance(o, array.array):
        return ('arr', o.typecode, o.tobytes().hex())
    if isinstance(o, float):
        return ('f', o.hex())
    if isinstance(o, (bool, int, str, type(None))):
        return o
    if isinstance(o, (list, tuple)):
        return (type(o).__name__, [canon(x) for x in o])
    if isinstance(o, dict):
        return ('dict', [(k, canon(v)) for k, v in sorted(o.items())])
    if isinstance(o, SeriesContainer):
        return ('SC', canon(o.series), o.detected_ndim)
    try:
        return ('mvlike', type(o).__name__, canon(np.asarray(o)))
    except Exception:
        return ('obj', type(o).__name__)


def call(fn, *args, **kwargs):
    out = io.StringIO()
    try:
        with contextlib.redirect_stdout(out):
            r = fn(*args, **kwargs)
        return ('ok', canon(r), out.getvalue())
    except BaseException as e:  # noqa
        return ('raise', type(e).__name__, str(e), out.getvalue())


def containers_1d(data, equal):
    reps = []
    reps.append(('list_of_arr', lambda: [array.array('d', x) for x in data]))
    reps.append(('tuple_of_arr', lambda: tuple(array.array('d', x) for x in data)))
    reps.append(('list_of_nd', lambda: [np.array(x, dtype=np.double) for x in data]))
    reps.append(('tuple_of_nd', lambda: tuple(np.array(x, dtype=np.double) for x in data)))
    reps.append(('list_of_nd_strided', lambda: [np.repeat(np.array(x, dtype=np.double), 3)[::3] for x in data]))
    reps.append(('list_of_nd_rev', lambda: [np.array(x[::-1], dtype=np.double)[::-1] for x in data]))
    reps.append(('list_mixed', lambda: [np.array(x, dtype=np.double) if i % 2 else array.array('d', x)
                                        for i, x in enumerate(data)]))
    reps.append(('list_of_list', lambda: [list(x) for x in data]))
    reps.append(('sc_list_of_nd', lambda: SeriesContainer([np.array(x, dtype=np.double) for x in data])))
    reps.append(('sc_list_of_arr', lambda: SeriesContainer([array.array('d', x) for x in data])))
    if equal:
        reps.append(('nd2_C', lambda: np.array(data, dtype=np.double)))
        reps.append(('nd2_F', lambda: np.asfortranarray(np.array(data, dtype=np.double))))
        reps.append(('nd2_T', lambda: np.array(data, dtype=np.double).T.copy().T))
        reps.append(('nd2_strided', lambda: np.repeat(np.array(data, dtype=np.double), 2, axis=1)[:, ::2]))
        reps.append(('nd2_rowstrided', lambda: np.repeat(np.array(data, dtype=np.double), 2, axis=0)[::2]))
        reps.append(('sc_nd2', lambda: SeriesContainer(np.array(data, dtype=np.double))))
        reps.append(('sc_nd2_F', lambda: SeriesContainer.wrap(np.asfortranarray(np.array(data, dtype=np.double)))))
    return reps


def containers_nd(data3, equal):
    reps = []
    reps.append(('list_of_nd2', lambda: [np.array(x, dtype=np.double) for x in data3]))
    reps.append(('tuple_of_nd2', lambda: tuple(np.array(x, dtype=np.double) for x in data3)))
    reps.append(('list_of_nd2_F', lambda: [np.asfortranarray(np.array(x, dtype=np.double)) for x in data3]))
    reps.append(('list_of_nd2_strided',
                 lambda: [np.repeat(np.array(x, dtype=np.double), 2, axis=0)[::2] for x in data3]))
    reps.append(('sc_list_of_nd2', lambda: SeriesContainer([np.array(x, dtype=np.double) for x in data3])))
    if equal:
        reps.append(('nd3_C', lambda: np.array(data3, dtype=np.double)))
        reps.append(('nd3_F', lambda: np.asfortranarray(np.array(data3, dtype=np.double))))
        reps.append(('nd3_strided', lambda: np.repeat(np.array(data3, dtype=np.double), 2, axis=1)[:, ::2, :]))
        reps.append(('sc_nd3', lambda: SeriesContainer(np.array(data3, dtype=np.double))))
    return reps


def random_block(rng, n):
    kind = rng.randrange(9)
    if kind <= 1:
        return None
    if kind == 2:
        return ((0, n), (0, n))
    if kind == 3:
        a = rng.randint(0, n - 1)
        b = rng.randint(a + 1, n)
        c = rng.randint(0, n - 1)
        d = rng.randint(c + 1, n)
        return ((a, b), (c, d))
    if kind == 4:
        a = rng.randint(0, n - 1)
        b = rng.randint(a + 1, n)
        c = rng.randint(0, n - 1)
        d = rng.randint(c + 1, n)
        return ((a, b), (c, d), False)
    if kind == 5:
        a = rng.randint(0, n - 1)
        b = rng.randint(a + 1, n)
        c = rng.randint(0, n - 1)
        d = rng.randint(c + 1, n)
        return ((a, b), (c, d), True)
    if kind == 6:
        # 0 stands for "until the end" (only with begin 0: other begins leave
        # part of the C output buffer unwritten)
        return ((0, 0), (0, 0))
    if kind == 7:
        return [[0, 0], [0, 0], False]
    return ((0, n + 2), (1, n + 3))


def random_settings(rng, minlen):
    s = {}
    if rng.random() < 0.5:
        s['window'] = rng.choice([1, 2, 3, 5, 50])
    if rng.random() < 0.25:
        s['max_dist'] = rng.choice([0.5, 2.0, 4.0, 100.0])
    if rng.random() < 0.2:
        s['max_step'] = rng.choice([0.5, 1.5, 3.0])
    if rng.random() < 0.2:
        s['max_length_diff'] = rng.choice([0, 1, 2, 5])
    if rng.random() < 0.25:
        s['penalty'] = rng.choice([0.01, 0.5, 2.0])
    if rng.random() < 0.25 and minlen >= 3:
        # psi is kept below the shortest series: the C kernel reads outside its
        # buffer (unspecified values) when psi exceeds a series length
        s['psi'] = rng.choice([1, 2, (1, 0, 0, 1), (0, 2, 1, 0), [1, 1, 1, 1]])
    if rng.random() < 0.2:
        s['use_pruning'] = True
    if rng.random() < 0.3:
        s['inner_dist'] = rng.choice(['euclidean', 'squared euclidean'])
    return s


def main():
    # The C library prints diagnostics with printf: send file descriptor 1 to
    # /dev/null while the calls run, restore it for the DIGEST line.
    import ctypes
    libc = ctypes.CDLL(None)
    sys.stdout.flush()
    saved_fd = os.dup(1)
    devnull = os.open(os.devnull, os.O_WRONLY)
    os.dup2(devnull, 1)
    try:
        summary = run()
    finally:
        sys.stdout.flush()
        libc.fflush(None)
        os.dup2(saved_fd, 1)
        os.close(devnull)
        os.close(saved_fd)
    print(summary)
    return 0


def run():
    rng = random.Random(4040404)
    results = []

    # ------------------------------------------------------------------ 1-D
    for trial in range(24):
        equal = trial % 2 == 0
        n = rng.randint(2, 7)
        if equal:
            length = rng.randint(2, 9)
            lens = [length] * n
        else:
            lens = [rng.randint(1, 9) for _ in range(n)]
        data = [[round(rng.uniform(-3, 3), rng.choice([0, 1, 3, 12])) for _ in range(l)] for l in lens]
        for rep_name, build in containers_1d(data, equal):
            block = random_block(rng, n)
            settings = random_settings(rng, min(lens))
            compact = rng.random() < 0.5
            only_triu = rng.random() < 0.3
            s = build()
            before = canon(s)
            r_py = call(dtw.distance_matrix, s, block=block, compact=compact, only_triu=only_triu,
                        use_c=False, **settings)
            r_c = call(dtw.distance_matrix, s, block=block, compact=compact, only_triu=only_triu,
                       use_c=True, **settings)
            r_c2 = call(dtw.distance_matrix, s, block=block, compact=compact, only_triu=only_triu,
                        use_c=True, **settings)
            fast_kw = {k: v for k, v in settings.items()}
            r_fast = call(dtw.distance_matrix_fast, s, block=block, compact=compact, parallel=False,
                          only_triu=only_triu, **fast_kw)
            # straight on the extension module: raw container (not wrapped)
            c_kw = dtw.DTWSettings(**settings).c_kwargs()
            raw = build()
            if 'rev' in rep_name:
                # a reversed view handed straight to the extension would be read
                # out of bounds (the public wrappers copy it first)
                raw_arg = SeriesContainer.wrap(raw)
            else:
                raw_arg = raw
            r_raw = call(dtw_cc.distance_matrix, raw_arg, block=block, **c_kw)
            r_raw0 = call(dtw_cc.distance_matrix, raw_arg, block=0.0, **c_kw)
            r_raw_pos = call(dtw_cc.distance_matrix, raw_arg, block, **c_kw)
            # pre-converted containers
            try:
                conv = SeriesContainer.wrap(build()).c_data_compat()
                r_conv = call(dtw_cc.distance_matrix, conv, block=block, **c_kw)
                r_conv2 = call(dtw_cc.distance_matrix, conv, block=block, **c_kw)
                r_conv_nd = call(dtw_cc.distance_matrix_ndim, conv, 1, block=block, **c_kw)
            except BaseException as e:  # noqa
                r_conv = r_conv2 = r_conv_nd = ('convraise', type(e).__name__, str(e))
            after = canon(s)
            results.append(('1d', trial, rep_name, block, sorted(settings.items(), key=str), compact, only_triu,
                            r_py, r_c, r_c2, r_fast, r_raw, r_raw0, r_raw_pos, r_conv, r_conv2, r_conv_nd,
                            before == after or ('changed', after), canon(raw) == before or 'rawchanged'))

    # ------------------------------------------------------------------ n-D
    for trial in range(14):
        equal = trial % 2 == 0
        n = rng.randint(2, 6)
        ndim = rng.randint(2, 4)
        if equal:
            length = rng.randint(2, 7)
            lens = [length] * n
        else:
            lens = [rng.randint(1, 7) for _ in range(n)]
        data3 = [[[round(rng.uniform(-3, 3), 2) for _ in range(ndim)] for _ in range(l)] for l in lens]
        for rep_name, build in containers_nd(data3, equal):
            block = random_block(rng, n)
            settings = random_settings(rng, min(lens))
            compact = rng.random() < 0.5
            only_triu = rng.random() < 0.3
            s = build()
            before = canon(s)
            r_py = call(dtw_ndim.distance_matrix, s, block=block, compact=compact, only_triu=only_triu,
                        use_c=False, **settings)
            r_c = call(dtw_ndim.distance_matrix, s, block=block, compact=compact, only_triu=only_triu,
                       use_c=True, **settings)
            r_c_nd = call(dtw_ndim.distance_matrix, s, ndim=ndim, block=block, compact=compact,
                          only_triu=only_triu, use_c=True, **settings)
            fkw = {k: v for k, v in settings.items() if k != 'use_pruning'}
            r_fast = call(dtw_ndim.distance_matrix_fast, s, block=block, compact=compact, parallel=False,
                          only_triu=only_triu, **fkw)
            c_kw = dtw.DTWSettings(**settings).c_kwargs()
            raw = build()
            r_raw = call(dtw_cc.distance_matrix_ndim, raw, ndim, block=block, **c_kw)
            r_raw_kw = call(dtw_cc.distance_matrix_ndim, cur=raw, ndim=ndim, block=block, **c_kw)
            r_raw0 = call(dtw_cc.distance_matrix_ndim, raw, ndim, block=0.0, **c_kw)
            after = canon(s)
            results.append(('nd', trial, rep_name, ndim, block, sorted(settings.items(), key=str), compact,
                            only_triu, r_py, r_c, r_c_nd, r_fast, r_raw, r_raw_kw, r_raw0,
                            before == after or ('changed', after), canon(raw) == before or 'rawchanged'))

    # -------------------------------------------- interleaved calls on shared objects
    n = 6
    data = [[round(rng.uniform(-2, 2), 3) for _ in range(7)] for _ in range(n)]
    shared = np.array(data, dtype=np.double)
    shared_f = np.asfortranarray(shared)
    shared_list = [np.array(x, dtype=np.double) for x in data]
    shared_sc = SeriesContainer(shared_f)
    snap = (canon(shared), canon(shared_f), canon(shared_list))
    seq = []
    for k in range(3):
        for blk in (None, ((0, 3), (2, 6)), ((1, 4), (0, 5), False)):
            seq.append(call(dtw.distance_matrix, shared, block=blk, compact=True, use_c=True, window=2 + k))
            seq.append(call(dtw.distance_matrix, shared_f, block=blk, compact=True, use_c=True, window=2 + k))
            seq.append(call(dtw.distance_matrix, shared_list, block=blk, compact=True, use_c=True, window=2 + k))
            seq.append(call(dtw.distance_matrix, shared_sc, block=blk, compact=True, use_c=True, window=2 + k))
            seq.append(call(dtw.distance_matrix, shared.T, block=blk, compact=True, use_c=True))
            seq.append(call(dtw.distance_matrix, shared[::2], compact=True, use_c=True))
            seq.append(call(dtw.distance_matrix, shared[:, ::2], compact=True, use_c=True))
            seq.append(call(dtw.distance_matrix, shared_list, block=blk, compact=True, use_c=False, window=2 + k))
            seq.append(call(dtw_cc.distance_matrix, shared_list, block=blk))
            seq.append(call(dtw_cc.distance_matrix, shared, block=blk))
            seq.append(call(dtw_cc.distance_matrix_ndim, shared.reshape(n, 7, 1), 1, block=blk))
    results.append(('interleaved', seq, snap == (canon(shared), canon(shared_f), canon(shared_list))))

    # -------------------------------------------- helper on the extension module
    for nb in (1, 2, 5, 9):
        for blk in ((0, 0, 0, 0, True), (0, nb, 0, nb, True), (1, 3, 0, 4, False), (0, 2, 1, 0, True)):
            b = dtw_cc.DTWBlock(blk[0], blk[1], blk[2], blk[3], triu=blk[4])
            results.append(('len', nb, blk, call(dtw_cc.distance_matrix_length, b, nb), str(b)))

    # -------------------------------------------- NumPy absent (sub-process)
    if os.environ.get('DTAIDISTANCE_TESTWITHOUTNUMPY') != '1':
        code = (
            "import array, logging; logging.disable(logging.CRITICAL)\n"
            "from dtaidistance import dtw, dtw_cc\n"
            "s=[array.array('d',[0.,1.,2.,1.]),array.array('d',[1.,2.,0.,0.,1.]),array.array('d',[2.,2.,1.])]\n"
            "for blk in (None, ((0,2),(1,3)), ((0,3),(0,3),False)):\n"
            "    for kw in (dict(use_c=True), dict(use_c=False), dict(use_c=True, window=2, psi=1)):\n"
            "        try:\n"
            "            print('ok', [x.hex() for x in dtw.distance_matrix(s, block=blk, compact=True, **kw)])\n"
            "        except Exception as e:\n"
            "            print('raise', type(e).__name__, e)\n"
            "    try:\n"
            "        print('ok', dtw.distance_matrix(s, block=blk, use_c=True))\n"
            "    except Exception as e:\n"
            "        print('raise', type(e).__name__, e)\n"
            "    print('raw', [x.hex() for x in dtw_cc.distance_matrix(s, block=blk)])\n"
            "print([x.tobytes().hex() for x in s])\n")
        env = dict(os.environ)
        env['DTAIDISTANCE_TESTWITHOUTNUMPY'] = '1'
        p = subprocess.run([sys.executable, '-c', code], env=env, stdout=subprocess.PIPE,
                           stderr=subprocess.DEVNULL, universal_newlines=True)
        results.append(('nonumpy', p.returncode, p.stdout))

    if os.environ.get('DEMO_DUMP'):
        with open(os.environ['DEMO_DUMP'], 'w') as fh:
            for rec in results:
                fh.write(repr(rec) + '\n')
    digest = hashlib.sha256(repr(results).encode('utf-8')).hexdigest()
    nb_ok = sum(1 for r in results for x in r if isinstance(x, tuple) and len(x) > 0 and x[0] == 'ok')
    nb_raise = sum(1 for r in results for x in r if isinstance(x, tuple) and len(x) > 0 and x[0] == 'raise')
    return 'records %d ok-calls %d raising-calls %d\nDIGEST %s' % (len(results), nb_ok, nb_raise, digest)


if __name__ == '__main__':
    sys.exit(main())
