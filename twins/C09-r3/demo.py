"""Randomised bit-for-bit comparison for property C09 (LB_Keogh <= DTW <= Euclidean UB, both engines).

Calls every observation point of the property on seeded random inputs and prints one DIGEST line.
Run with PYTHONPATH=<worktree>/src.
"""
import array
import hashlib
import math
import random
import sys

import numpy as np

from dtaidistance import dtw, dtw_ndim, ed, ed_cc, dtw_cc, innerdistance

INNER = ['squared euclidean', 'euclidean']
results = []


def h(x):
    """Exact (bit-level) textual form of a float result."""
    x = float(x)
    if math.isnan(x):
        return 'nan'
    if math.isinf(x):
        return 'inf' if x > 0 else '-inf'
    return x.hex()


def rec(tag, *vals):
    results.append((tag,) + tuple(h(v) for v in vals))


def gen_series(rng, n, mode):
    if mode == 0:      # mixed signs
        return [rng.uniform(-10, 10) for _ in range(n)]
    if mode == 1:      # all negative
        return [rng.uniform(-20, -1) for _ in range(n)]
    if mode == 2:      # all positive
        return [rng.uniform(0, 5) for _ in range(n)]
    if mode == 3:      # small integers (many ties)
        return [float(rng.randint(-3, 3)) for _ in range(n)]
    if mode == 4:      # large magnitude
        return [rng.gauss(0, 1e6) for _ in range(n)]
    return [rng.gauss(0, 1) * 1e-3 for _ in range(n)]   # tiny


def main():
    rng = random.Random(90909)
    n_viol = 0
    # ---------------- 1-D ----------------
    for it in range(700):
        l1 = rng.choice([1, 1, 2, 3, 4, 5, 7, 10, 13, 20, 31])
        if rng.random() < 0.35:
            l2 = l1
        else:
            l2 = rng.choice([1, 2, 3, 4, 6, 8, 10, 15, 25, 40])
        mode = rng.randrange(6)
        a = gen_series(rng, l1, mode)
        b = gen_series(rng, l2, rng.choice([mode, rng.randrange(6)]))
        na = np.array(a, dtype=np.double)
        nb = np.array(b, dtype=np.double)
        aa = array.array('d', a)
        ab = array.array('d', b)
        for inner in INNER:
            ic = innerdistance.to_c(inner)
            # Euclidean upper bound, all entry points
            e_list = ed.distance(a, b, inner_dist=inner)
            e_np = ed.distance(na, nb, inner_dist=inner)
            e_arr = ed.distance(aa, ab, inner_dist=inner)
            e_fast = ed.distance_fast(na, nb, inner_dist=inner)
            e_cc = ed_cc.distance(na, nb, ic)
            e_cca = ed_cc.distance(aa, ab, inner_dist=ic)
            u_py = dtw.ub_euclidean(a, b, inner_dist=inner)
            u_np = dtw.ub_euclidean(na, nb, inner_dist=inner)
            rec('ed1', e_list, e_np, e_arr, e_fast, e_cc, e_cca, u_py, u_np)
            if inner == 'squared euclidean':
                rec('ubcc', dtw_cc.ub_euclidean(na, nb), dtw_cc.ub_euclidean(aa, ab))
            # reversed argument order
            rec('ed1r', ed.distance(b, a, inner_dist=inner), ed.distance_fast(nb, na, inner_dist=inner))
            # only_ub shortcut, both engines
            o_py = dtw.distance(a, b, only_ub=True, inner_dist=inner)
            o_np = dtw.distance(na, nb, only_ub=True, inner_dist=inner)
            o_c = dtw.distance(na, nb, only_ub=True, inner_dist=inner, use_c=True)
            o_f = dtw.distance_fast(na, nb, only_ub=True, inner_dist=inner)
            o_w = dtw.distance(na, nb, only_ub=True, inner_dist=inner, window=rng.choice([1, 2, 5]),
                               penalty=rng.choice([0, 0.5]))
            o_mld = dtw.distance(a, b, only_ub=True, inner_dist=inner, max_length_diff=rng.choice([0, 1, 3, 50]))
            rec('onlyub', o_py, o_np, o_c, o_f, o_w, o_mld)
            # windows: lower bound / DTW / upper bound
            d_free = dtw.distance(na, nb, inner_dist=inner)
            d_free_c = dtw.distance_fast(na, nb, inner_dist=inner)
            rec('dtwfree', d_free, d_free_c)
            if d_free > e_list * (1 + 1e-9) + 1e-12:
                n_viol += 1
            for window in [None, 1, 2, 3, 5, 9, 100]:
                kw = {} if window is None else {'window': window}
                lb_py = dtw.lb_keogh(a, b, inner_dist=inner, **kw)
                lb_np = dtw.lb_keogh(na, nb, inner_dist=inner, **kw)
                lb_ar = dtw.lb_keogh(aa, ab, inner_dist=inner, **kw)
                lb_c = dtw.lb_keogh(na, nb, inner_dist=inner, use_c=True, **kw)
                lb_cc = dtw_cc.lb_keogh(na, nb, inner_dist=ic, **kw)
                lb_r = dtw.lb_keogh(nb, na, inner_dist=inner, use_c=True, **kw)
                lb_rp = dtw.lb_keogh(b, a, inner_dist=inner, **kw)
                rec('lb', lb_py, lb_np, lb_ar, lb_c, lb_cc, lb_r, lb_rp)
                pen = rng.choice([0, 0, 0.1, 1.0, 7.5])
                d_w = dtw.distance(na, nb, inner_dist=inner, penalty=pen, **kw)
                d_wc = dtw.distance_fast(na, nb, inner_dist=inner, penalty=pen, **kw)
                rec('dtw', d_w, d_wc)
                if lb_py > d_w * (1 + 1e-9) + 1e-9 or lb_c > d_wc * (1 + 1e-9) + 1e-9:
                    n_viol += 1
    # ---------------- n-D ----------------
    for it in range(500):
        ndim = rng.choice([1, 2, 3])
        l1 = rng.choice([1, 2, 3, 5, 8, 12, 20])
        l2 = l1 if rng.random() < 0.35 else rng.choice([1, 2, 4, 6, 9, 15, 30])
        mode = rng.randrange(6)
        a = np.array([gen_series(rng, ndim, mode) for _ in range(l1)], dtype=np.double)
        b = np.array([gen_series(rng, ndim, mode) for _ in range(l2)], dtype=np.double)
        for inner in INNER:
            ic = innerdistance.to_c(inner)
            e_py = ed.distance(a, b, inner_dist=inner, use_ndim=True)
            e_cc = ed_cc.distance_ndim(a, b, ic)
            e_cck = ed_cc.distance_ndim(b, a, inner_dist=ic)
            u_py = dtw.ub_euclidean(a, b, inner_dist=inner, use_ndim=True)
            u_nd = dtw_ndim.ub_euclidean(a, b, inner_dist=inner)
            rec('edn', e_py, e_cc, e_cck, u_py, u_nd)
            if inner == 'squared euclidean':
                rec('ubccn', dtw_cc.ub_euclidean_ndim(a, b), dtw_cc.ub_euclidean_ndim(b, a))
            o_py = dtw_ndim.distance(a, b, only_ub=True, inner_dist=inner)
            o_c = dtw_ndim.distance(a, b, only_ub=True, inner_dist=inner, use_c=True)
            o_f = dtw_ndim.distance_fast(a, b, only_ub=True, inner_dist=inner)
            o_d = dtw.distance(a, b, only_ub=True, inner_dist=inner, use_ndim=True)
            rec('onlyubn', o_py, o_c, o_f, o_d)
            d_py = dtw_ndim.distance(a, b, inner_dist=inner)
            d_c = dtw_ndim.distance_fast(a, b, inner_dist=inner)
            rec('dtwn', d_py, d_c)
            if d_py > e_py * (1 + 1e-9) + 1e-12 or d_c > e_cc * (1 + 1e-9) + 1e-12:
                n_viol += 1
            # agreement of engines (tolerance; exact values are in the digest)
            if not math.isclose(e_py, e_cc, rel_tol=1e-9, abs_tol=1e-12):
                n_viol += 1
    # error paths
    for bad in ['manhattan', 7]:
        try:
            ed.distance([1.0, 2.0], [2.0], inner_dist=bad)
            results.append(('err', 'none'))
        except Exception as exc:
            results.append(('err', type(exc).__name__))
    for badc in [2, -1]:
        try:
            ed_cc.distance_ndim(np.zeros((2, 2)), np.zeros((3, 2)), badc)
            results.append(('errc', 'none'))
        except Exception as exc:
            results.append(('errc', type(exc).__name__))
    try:
        ed_cc.distance_ndim(np.zeros((2, 2)), np.zeros((3, 3)), 0)
        results.append(('errd', 'none'))
    except Exception as exc:
        results.append(('errd', type(exc).__name__))
    results.append(('violations', n_viol))
    digest = hashlib.sha256(repr(results).encode('utf-8')).hexdigest()
    print('N', len(results), 'violations', n_viol, file=sys.stderr)
    print('DIGEST ' + digest)
    return 0


if __name__ == '__main__':
    sys.exit(main())
