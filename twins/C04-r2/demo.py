"""Randomised digest of the C engine's warping-paths matrices for property C04.

Covers: dtw.warping_paths_fast (full matrix, i.e. compact fill + dtw_expand_wps when the band
does not cover the matrix), compact=True, the affinity variant (full + compact) and
dtw_cc.wps_expand_slice on random and systematic slices of compact matrices.

Prints one line `DIGEST <sha256>`; the digest covers every byte of every matrix.
"""
import hashlib
import random
import sys

import numpy as np

from dtaidistance import dtw, dtw_cc

rng = random.Random(40404)
h = hashlib.sha256()
n_calls = 0
n_exc = 0


def feed(x):
    h.update(repr(x).encode("utf8"))
    h.update(b"\n")


def enc_arr(m):
    m = np.ascontiguousarray(m)
    return (str(m.dtype), m.shape, m.tobytes().hex())


def enc_result(res):
    d, m = res
    return [float(d).hex(), None if m is None else enc_arr(m)]


def call(tag, fn, *args, **kw):
    global n_calls, n_exc
    n_calls += 1
    try:
        res = enc_result(fn(*args, **kw))
    except Exception as exc:
        n_exc += 1
        res = ["EXC", type(exc).__name__, str(exc)]
    feed((tag, sorted((k, repr(v)) for k, v in kw.items()), res))


def rand_series(n, kind="grid"):
    if kind == "float":
        return np.array([rng.uniform(-3, 3) for _ in range(n)], dtype=np.double)
    return np.array([rng.randint(-3, 3) * 0.5 for _ in range(n)], dtype=np.double)


def rand_psi(l1, l2):
    t = rng.random()
    if t < 0.4:
        return None
    if t < 0.7:
        return rng.randint(0, min(l1, l2))
    return (rng.randint(0, l1), rng.randint(0, l1), rng.randint(0, l2), rng.randint(0, l2))


def rand_kwargs(l1, l2):
    kw = {}
    t = rng.random()
    if t < 0.15:
        pass
    elif t < 0.25:
        kw["window"] = None
    else:
        kw["window"] = rng.randint(1, max(l1, l2) + 2)
    if rng.random() < 0.5:
        kw["penalty"] = rng.choice([0, 0.1, 0.5, 1, 2.5])
    psi = rand_psi(l1, l2)
    if psi is not None:
        kw["psi"] = psi
    if rng.random() < 0.4:
        kw["max_step"] = rng.choice([0, 0.5, 1.0, 2.0, 3.5])
    if rng.random() < 0.45:
        kw["max_dist"] = rng.choice([0, 0.3, 1.0, 2.0, 4.0, 9.0])
    if rng.random() < 0.2:
        kw["use_pruning"] = True
    t = rng.random()
    if t < 0.35:
        kw["inner_dist"] = "euclidean"
    elif t < 0.55:
        kw["inner_dist"] = "squared euclidean"
    if rng.random() < 0.6:
        kw["psi_neg"] = rng.random() < 0.5
    if rng.random() < 0.6:
        kw["keep_int_repr"] = rng.random() < 0.5
    return kw


def expand_slice(wps, l1, l2, rb, re, cb, ce, settings):
    """dtw_cc.wps_expand_slice into an over-allocated buffer (everything that is written is digested)."""
    global n_calls
    n_calls += 1
    fw = ce - cb
    rows = (re - rb) + l1 + l2 + 6
    buf = np.full((rows, fw), 7.25)
    dtw_cc.wps_expand_slice(wps, buf, l1, l2, rb, re, cb, ce, settings)
    feed(("slice", l1, l2, rb, re, cb, ce, enc_arr(buf)))


# 1. full + compact matrices, random options
for _ in range(3000):
    l1 = rng.randint(1, 14)
    l2 = rng.randint(1, 14)
    if rng.random() < 0.3:
        l2 = l1
    kind = rng.choice(["float", "grid", "grid"])
    s1 = rand_series(l1, kind)
    s2 = rand_series(l2, kind)
    feed((s1.tolist(), s2.tolist()))
    kw = rand_kwargs(l1, l2)
    call("full", dtw.warping_paths_fast, s1, s2, compact=False, **kw)
    call("compact", dtw.warping_paths_fast, s1, s2, compact=True, **kw)

# 2. systematic (l1, l2, window) sweep: all four row regions, every column shift
for l1 in range(1, 11):
    for l2 in range(1, 11):
        s1 = rand_series(l1)
        s2 = rand_series(l2)
        feed((s1.tolist(), s2.tolist()))
        for window in [None] + list(range(1, max(l1, l2) + 2)):
            call("full", dtw.warping_paths_fast, s1, s2, window=window)
            call("compact", dtw.warping_paths_fast, s1, s2, window=window, compact=True)
            call("full", dtw.warping_paths_fast, s1, s2, window=window, penalty=0.5,
                 psi=min(l1, l2, 2), psi_neg=True)
            call("full", dtw.warping_paths_fast, s1, s2, window=window, max_dist=1.5,
                 keep_int_repr=True, psi_neg=False, psi=(0, min(l1, 1), min(l2, 2), 0))
            call("aff", dtw.warping_paths_affinity_fast, s1, s2, window=window, penalty=0.1,
                 gamma=0.7, tau=0.3, delta=-0.2, delta_factor=0.9)
            call("aff-compact", dtw.warping_paths_affinity_fast, s1, s2, window=window, penalty=0.1,
                 gamma=0.7, tau=0.3, delta=-0.2, delta_factor=0.9, compact=True)

# 3. multivariate series
for _ in range(600):
    l1 = rng.randint(1, 11)
    l2 = rng.randint(1, 11)
    nd = rng.randint(1, 3)
    s1 = np.array([[rng.randint(-3, 3) * 0.5 for _ in range(nd)] for _ in range(l1)], dtype=np.double)
    s2 = np.array([[rng.randint(-3, 3) * 0.5 for _ in range(nd)] for _ in range(l2)], dtype=np.double)
    feed((s1.tolist(), s2.tolist()))
    kw = rand_kwargs(l1, l2)
    kw["use_ndim"] = True
    call("full-nd", dtw.warping_paths_fast, s1, s2, compact=False, **kw)
    call("compact-nd", dtw.warping_paths_fast, s1, s2, compact=True, **kw)

# 4. affinity matrices, random options (only_triu is left out: the original C kernel writes out of
#    bounds with it, which makes results depend on the heap state)
for _ in range(1200):
    l1 = rng.randint(1, 13)
    l2 = rng.randint(1, 13)
    s1 = rand_series(l1)
    s2 = rand_series(l2)
    feed((s1.tolist(), s2.tolist()))
    kw = dict(window=rng.choice([None] + list(range(1, max(l1, l2) + 2))),
              penalty=rng.choice([None, 0, 0.1, 0.5]),
              psi=rand_psi(l1, l2), psi_neg=rng.random() < 0.5,
              gamma=rng.choice([1, 0.5, 2.0]), tau=rng.choice([0, 0.2, 0.6]),
              delta=rng.choice([0, -0.1, -0.5]), delta_factor=rng.choice([1, 0.9, 0.5]))
    call("aff", dtw.warping_paths_affinity_fast, s1, s2, compact=False, **kw)
    call("aff-compact", dtw.warping_paths_affinity_fast, s1, s2, compact=True, **kw)

# 5. slices of compact matrices
for it in range(1500):
    l1 = rng.randint(1, 13)
    l2 = rng.randint(1, 13)
    if rng.random() < 0.3:
        l2 = l1
    s1 = rand_series(l1)
    s2 = rand_series(l2)
    t = rng.random()
    window = None if t < 0.15 else rng.randint(1, max(l1, l2) + 1)
    penalty = rng.choice([None, 0.1, 0.5])
    feed((s1.tolist(), s2.tolist(), window, penalty))
    settings = dtw_cc.DTWSettings(window=0 if window is None else window,
                                  penalty=0 if penalty is None else penalty)
    if it % 2 == 0:
        _, wps = dtw.warping_paths_affinity_fast(s1, s2, window=window, penalty=penalty,
                                                 gamma=0.8, tau=0.2, delta=-0.1, delta_factor=0.9,
                                                 compact=True)
    else:
        _, wps = dtw.warping_paths_fast(s1, s2, window=window, penalty=penalty,
                                        keep_int_repr=True, compact=True)
    feed(enc_arr(wps))
    # the whole matrix
    expand_slice(wps, l1, l2, 0, l1 + 1, 0, l2 + 1, settings)
    # random slices
    for _ in range(6):
        rb = rng.randint(0, l1)
        re = rng.randint(rb + 1, l1 + 1)
        cb = rng.randint(0, l2)
        ce = rng.randint(cb + 1, l2 + 1)
        expand_slice(wps, l1, l2, rb, re, cb, ce, settings)

# 6. all slices of a few small compact matrices
for (l1, l2, window) in [(5, 5, 2), (6, 4, 1), (4, 7, 2), (7, 7, 3), (3, 6, 1), (6, 3, 2), (5, 5, None)]:
    s1 = rand_series(l1)
    s2 = rand_series(l2)
    settings = dtw_cc.DTWSettings(window=0 if window is None else window)
    _, wps = dtw.warping_paths_fast(s1, s2, window=window, keep_int_repr=True, compact=True)
    feed((s1.tolist(), s2.tolist(), window, enc_arr(wps)))
    for rb in range(0, l1 + 1):
        for re in range(rb + 1, l1 + 2):
            for cb in range(0, l2 + 1):
                for ce in range(cb + 1, l2 + 2):
                    expand_slice(wps, l1, l2, rb, re, cb, ce, settings)

sys.stderr.write("calls=%d exceptions=%d\n" % (n_calls, n_exc))
print("DIGEST " + h.hexdigest())
