"""Demo for refactoring r5 (property C02).

Exercises the n-dimensional C kernel dtw_distance_ndim (squared euclidean inner distance;
the euclidean variant is reached through the same entry point) through
dtw_ndim.distance_fast, dtw.distance_fast(use_ndim=True), dtw_cc.distance_ndim,
dtw_cc.distance_ndim_assinglearray (ndim == 1) and the n-D C distance-matrix routines, on seeded
random series (ndim 1..3) and option combinations.  Prints one DIGEST line.
"""
import array
import hashlib
import math
import random
import sys

import numpy as np

from dtaidistance import dtw, dtw_ndim, dtw_cc

SEED = 20240402
rng = random.Random(SEED)
results = []


def rec(tag, fn):
    try:
        v = fn()
    except Exception as exc:  # recorded, part of the observable behaviour
        v = 'EXC:' + type(exc).__name__ + ':' + str(exc)
    if isinstance(v, float):
        v = (repr(v), v.hex() if not math.isnan(v) else 'nan')
    results.append((tag, repr(v)))
    return v


def rand_series(n, ndim=None, style=0):
    if ndim is None:
        shape = (n,)
    else:
        shape = (n, ndim)
    cnt = int(np.prod(shape))
    if style == 0:
        vals = [rng.uniform(-5, 5) for _ in range(cnt)]
    elif style == 1:
        vals = [float(rng.randint(-3, 3)) for _ in range(cnt)]
    elif style == 2:
        vals = [rng.gauss(0, 1) * 10 ** rng.randint(-3, 3) for _ in range(cnt)]
    else:
        vals = [rng.choice([0.0, 1.0, -1.0, 0.5]) for _ in range(cnt)]
    return np.array(vals, dtype=np.double).reshape(shape)


def rand_psi(l1, l2, window):
    # psi-relaxation wider than the band (or than a series) is outside the domain accepted
    # by the engines (the C kernel only asserts it), so stay inside it.
    m = min(l1, l2)
    if window is not None:
        m = min(m, window)
    k = rng.random()
    if k < 0.35:
        return None
    if k < 0.45:
        return 0
    if k < 0.70:
        return rng.randint(0, m)
    t = (rng.randint(0, m), rng.randint(0, m), rng.randint(0, m), rng.randint(0, m))
    if k < 0.85:
        return t
    return list(t)


def rand_settings(l1, l2, allow_inf=True):
    s = {}
    k = rng.random()
    if k < 0.3:
        s['window'] = None
    elif k < 0.35:
        pass
    else:
        s['window'] = rng.randint(1, max(l1, l2) + 2)
    k = rng.random()
    if k < 0.3:
        s['penalty'] = None
    elif k < 0.4:
        s['penalty'] = 0
    elif k < 0.5:
        pass
    else:
        s['penalty'] = rng.choice([0.1, 0.5, 1.0, 2.5, rng.uniform(0, 3)])
    s['psi'] = rand_psi(l1, l2, s.get('window'))
    if s['psi'] is None and rng.random() < 0.5:
        del s['psi']
    k = rng.random()
    if k < 0.55:
        s['max_step'] = None
    elif k < 0.65:
        s['max_step'] = 0
    else:
        s['max_step'] = rng.choice([1.0, 3.0, 5.0, 8.0, 12.0, rng.uniform(0.5, 15)])
    k = rng.random()
    if k < 0.5:
        s['max_dist'] = None
    elif k < 0.6:
        s['max_dist'] = 0
    else:
        s['max_dist'] = rng.choice([2.0, 5.0, 10.0, 20.0, 40.0, rng.uniform(0.5, 60)])
    k = rng.random()
    if k < 0.5:
        s['max_length_diff'] = None
    elif k < 0.58:
        s['max_length_diff'] = 0
    elif k < 0.68 and allow_inf:
        s['max_length_diff'] = math.inf
    else:
        s['max_length_diff'] = rng.randint(1, 10)
    k = rng.random()
    if k < 0.5:
        s['use_pruning'] = rng.random() < 0.5
    elif k < 0.55:
        s['use_pruning'] = None
    s['inner_dist'] = rng.choice(['squared euclidean', 'euclidean'])
    if rng.random() < 0.1:
        del s['inner_dist']
    return s



def norm(v):
    if isinstance(v, np.ndarray):
        return ('nd', v.shape, v.astype(np.double).tobytes().hex())
    if isinstance(v, array.array):
        return ('arr', v.typecode, v.tobytes().hex())
    if isinstance(v, (list, tuple)):
        return [norm(x) for x in v]
    return v


# --- 1. single pairs -------------------------------------------------------------------
for case in range(6000):
    ndim = rng.randint(1, 3)
    if case < 4500:
        l1, l2 = rng.randint(1, 14), rng.randint(1, 14)
    else:
        l1, l2 = rng.randint(10, 40), rng.randint(10, 40)
    if rng.random() < 0.3:
        l2 = l1
    style = rng.randint(0, 3)
    s1, s2 = rand_series(l1, ndim, style), rand_series(l2, ndim, style)
    st = rand_settings(l1, l2, allow_inf=(case % 2 == 0))
    if case % 4 != 0:
        st['inner_dist'] = 'squared euclidean'
    only_ub = rng.random() < 0.08
    rec(('nd_fast', case), lambda: dtw_ndim.distance_fast(s1, s2, only_ub=only_ub, **st))
    if case % 2 == 0:
        rec(('fast_use_ndim', case), lambda: dtw.distance_fast(s1, s2, only_ub=only_ub, use_ndim=True, **st))
    ckw = dtw.DTWSettings(**st).c_kwargs()
    if case % 3 == 0:
        rec(('cc_nd', case), lambda: dtw_cc.distance_ndim(s1, s2, only_ub=only_ub, **ckw))
    if case % 5 == 0 and ndim == 1:
        # (the flat-array wrapper passes the flat length, so it is only meaningful for ndim == 1)
        f1, f2 = np.ascontiguousarray(s1.reshape(-1)), np.ascontiguousarray(s2.reshape(-1))
        rec(('cc_nd_single', case), lambda: dtw_cc.distance_ndim_assinglearray(f1, f2, ndim, only_ub=only_ub, **ckw))
    if case % 7 == 0:
        # options as they come in with "off" written as 0 instead of None
        st0 = {k: (0 if v is None else v) for k, v in st.items()}
        rec(('nd_fast_zero', case), lambda: dtw_ndim.distance_fast(s1, s2, only_ub=only_ub, **st0))
    if case % 17 == 0 and l1 <= 14 and l2 <= 14:
        rec(('python_nd', case), lambda: dtw_ndim.distance(s1, s2, only_ub=only_ub, **st))

# --- 2. systematic small grid (every window / psi on short series) ----------------------
for case in range(60):
    ndim = 1 + case % 3
    l1, l2 = rng.randint(1, 7), rng.randint(1, 7)
    s1, s2 = rand_series(l1, ndim, case % 4), rand_series(l2, ndim, case % 4)
    for window in [None] + list(range(1, max(l1, l2) + 2)):
        m = min(l1, l2) if window is None else min(l1, l2, window)
        for psi in [None] + list(range(0, m + 1)):
            for penalty in (None, 0.7):
                for max_dist in (None, 3.0):
                    kw = dict(window=window, psi=psi, penalty=penalty, max_dist=max_dist)
                    rec(('grid', case, repr(kw)), lambda: dtw_ndim.distance_fast(s1, s2, **kw))
                rec(('grid_prune', case, window, psi, penalty), lambda: dtw_ndim.distance_fast(
                    s1, s2, window=window, psi=psi, penalty=penalty, use_pruning=True))
            rec(('grid_step', case, window, psi), lambda: dtw_ndim.distance_fast(
                s1, s2, window=window, psi=psi, max_step=2.0))

# --- 3. n-D distance matrices (call the kernel for every cell) --------------------------
for case in range(300):
    n = rng.randint(2, 6)
    ndim = rng.randint(1, 3)
    style = rng.randint(0, 3)
    equal_len = rng.random() < 0.5
    l = rng.randint(1, 10)
    lens = [l if equal_len else rng.randint(1, 10) for _ in range(n)]
    ser = [rand_series(k, ndim, style) for k in lens]
    st = rand_settings(min(lens), min(lens), allow_inf=False)
    ckw = dtw.DTWSettings(**st).c_kwargs()
    rec(('mat_ptrs', case), lambda: norm(dtw_cc.distance_matrix_ndim(ser, ndim, **ckw)))
    rec(('mat_hl', case), lambda: norm(dtw_ndim.distance_matrix(
        ser, compact=True, parallel=False, use_c=True, **st)))
    if equal_len:
        mat = np.array(ser, dtype=np.double)
        rec(('mat_matrix', case), lambda: norm(dtw_cc.distance_matrix_ndim(mat, ndim, **ckw)))

h = hashlib.sha256(repr(results).encode('utf-8')).hexdigest()
print('DIGEST', h)
print('n_results', len(results), file=sys.stderr)
sys.exit(0)
