"""Randomised digest of the DTW distance routines (Python engine and C engine).

Calls dtw.distance / dtw.distance_fast / dtw_ndim.distance / dtw_ndim.distance_fast and the
distance-matrix routines of both engines on seeded random inputs and option combinations, and
prints the sha256 of the repr of all results (floats are rendered with float.hex, so the digest
is sensitive to a single bit).
"""
import array
import hashlib
import random
import sys

import numpy as np

from dtaidistance import dtw, dtw_ndim

INNER = ['squared euclidean', 'euclidean']


def fx(v):
    """Bit-exact rendering of a result."""
    if isinstance(v, float):
        return v.hex()
    if isinstance(v, (np.floating,)):
        return float(v).hex()
    if isinstance(v, np.ndarray):
        return [fx(x) for x in v.ravel().tolist()] + [list(v.shape)]
    if isinstance(v, (list, tuple)):
        return [fx(x) for x in v]
    if isinstance(v, array.array):
        return [fx(x) for x in v]
    return repr(v)


def call(fn, *args, **kwargs):
    try:
        return fx(fn(*args, **kwargs))
    except Exception as exc:  # the kind of failure is part of the observable behaviour
        return 'EXC ' + type(exc).__name__


def rand_series(rng, n, ndim, kind):
    if kind == 0:
        vals = [rng.uniform(-3, 3) for _ in range(n * ndim)]
    elif kind == 1:
        vals = [float(rng.randint(-2, 2)) for _ in range(n * ndim)]
    elif kind == 2:
        vals = [rng.gauss(0, 1) * 10 ** rng.randint(-3, 3) for _ in range(n * ndim)]
    else:
        base = rng.uniform(-1, 1)
        vals = [base + 0.25 * rng.randint(-1, 1) for _ in range(n * ndim)]
    return np.array(vals, dtype=np.double)


def rand_opts(rng, l1, l2):
    o = {}
    m = min(l1, l2)
    w = rng.choice(['absent', None, 1, 2, 3, 'big', 'rand'])
    if w == 'big':
        o['window'] = max(l1, l2) + rng.randint(0, 3)
    elif w == 'rand':
        o['window'] = rng.randint(1, max(l1, l2))
    elif w != 'absent':
        o['window'] = w
    p = rng.choice(['absent', None, 0, 0.0, 0.1, 0.5, 1, 2.5])
    if p != 'absent':
        o['penalty'] = p
    ps = rng.choice(['absent', None, 0, 'int', 'int', 'tuple', 'tuple', 'list'])
    if ps == 'int':
        o['psi'] = rng.randint(0, m)
    elif ps == 'tuple':
        o['psi'] = (rng.randint(0, l1), rng.randint(0, l1), rng.randint(0, l2), rng.randint(0, l2))
        if rng.random() < 0.4:
            k = rng.randrange(4)
            o['psi'] = tuple(0 if i != k else v for i, v in enumerate(o['psi']))
    elif ps == 'list':
        o['psi'] = [rng.randint(0, min(l1, 2)), rng.randint(0, min(l1, 2)),
                    rng.randint(0, min(l2, 2)), rng.randint(0, min(l2, 2))]
    elif ps != 'absent':
        o['psi'] = ps
    # Keep the relaxation inside the band: with psi wider than the window the C engine indexes
    # outside its compact buffer (undefined behaviour, also in the unmodified library).
    w_eff = o.get('window')
    if w_eff and 'psi' in o and o['psi']:
        cap = max(0, w_eff - 1)
        if type(o['psi']) is int:
            o['psi'] = min(o['psi'], cap)
        else:
            o['psi'] = type(o['psi'])(min(v, cap) for v in o['psi'])
    ms = rng.choice(['absent', None, 0, 0.3, 1, 1.5, 3.0, 50.0])
    if ms != 'absent':
        o['max_step'] = ms
    md = rng.choice(['absent', None, 0, 0.5, 1.0, 2, 4.0, 9.5, 1000.0])
    if md != 'absent':
        o['max_dist'] = md
    ml = rng.choice(['absent', None, 0, 1, 2, 5, 100])
    if ml != 'absent':
        o['max_length_diff'] = ml
    up = rng.choice(['absent', False, True])
    if up != 'absent':
        o['use_pruning'] = up
    ub = rng.choice(['absent', 'absent', False, True])
    if ub != 'absent':
        o['only_ub'] = ub
    idist = rng.choice(['absent'] + INNER + INNER)
    if idist != 'absent':
        o['inner_dist'] = idist
    return o


def main():
    rng = random.Random(20260929)
    out = []

    # ---- single pairs, 1-D -------------------------------------------------------------------
    for it in range(2600):
        l1 = rng.choice([1, 1, 2, 3, 4, 5, 7, 9, 12, 17, 25])
        l2 = rng.choice([1, 2, 2, 3, 4, 6, 7, 10, 12, 19, 25])
        kind = rng.randrange(4)
        s1 = rand_series(rng, l1, 1, kind)
        s2 = rand_series(rng, l2, 1, kind)
        if rng.random() < 0.1 and l1 == l2:
            s2 = s1.copy()
        o = rand_opts(rng, l1, l2)
        out.append(('py1', it, call(dtw.distance, s1, s2, **o)))
        out.append(('c1', it, call(dtw.distance_fast, s1, s2, **o)))
        if it % 3 == 0:
            out.append(('py1-usec', it, call(dtw.distance, s1, s2, use_c=True, **o)))
        if it % 5 == 0:
            a1 = array.array('d', s1.tolist())
            a2 = array.array('d', s2.tolist())
            out.append(('py1-arr', it, call(dtw.distance, a1, a2, **o)))
            out.append(('c1-arr', it, call(dtw.distance_fast, a1, a2, **o)))
            out.append(('py1-list', it, call(dtw.distance, s1.tolist(), s2.tolist(), **o)))

    # ---- single pairs, n-D -------------------------------------------------------------------
    for it in range(1500):
        ndim = rng.choice([1, 2, 3])
        l1 = rng.choice([1, 2, 3, 4, 5, 8, 11, 16])
        l2 = rng.choice([1, 2, 3, 4, 6, 8, 13, 16])
        kind = rng.randrange(4)
        s1 = rand_series(rng, l1, ndim, kind).reshape(l1, ndim)
        s2 = rand_series(rng, l2, ndim, kind).reshape(l2, ndim)
        o = rand_opts(rng, l1, l2)
        out.append(('pyN', it, ndim, call(dtw_ndim.distance, s1, s2, **o)))
        out.append(('cN', it, ndim, call(dtw_ndim.distance_fast, s1, s2, **o)))
        if it % 4 == 0:
            out.append(('pyN-usec', it, ndim, call(dtw_ndim.distance, s1, s2, use_c=True, **o)))

    # ---- distance matrices -------------------------------------------------------------------
    for it in range(160):
        nb = rng.randint(2, 6)
        equal = rng.random() < 0.5
        ln = rng.randint(1, 10)
        kind = rng.randrange(4)
        lens = [ln if equal else rng.randint(1, 10) for _ in range(nb)]
        series = [rand_series(rng, n, 1, kind) for n in lens]
        # a list of arrays goes through the pointer-based C routine (dtw_distances_ptrs)
        if equal and rng.random() < 0.15:
            series_in = np.array(series)
        else:
            series_in = series
        o = rand_opts(rng, min(lens), min(lens))
        o.pop('only_ub', None)
        blk = None
        if rng.random() < 0.3:
            rb = rng.randint(0, nb - 1)
            cb = rng.randint(0, nb - 1)
            blk = ((rb, rng.randint(rb + 1, nb)), (cb, rng.randint(cb + 1, nb)))
        compact = rng.random() < 0.3
        out.append(('mpy', it, call(dtw.distance_matrix, series_in, block=blk, compact=compact, **o)))
        out.append(('mc', it, call(dtw.distance_matrix, series_in, block=blk, compact=compact,
                                   use_c=True, **o)))
        out.append(('mfast', it, call(dtw.distance_matrix_fast, series_in, block=blk, compact=compact, **o)))
        if it % 4 == 0:
            out.append(('mcpar', it, call(dtw.distance_matrix, series_in, block=blk, compact=compact,
                                          use_c=True, parallel=True, **o)))

    for it in range(120):
        nb = rng.randint(2, 5)
        ndim = rng.choice([1, 2, 3])
        ln = rng.randint(1, 8)
        kind = rng.randrange(4)
        series = [rand_series(rng, ln, ndim, kind).reshape(ln, ndim) for _ in range(nb)]
        if rng.random() < 0.15:
            series = np.array(series)
        o = rand_opts(rng, ln, ln)
        o.pop('only_ub', None)
        out.append(('mNpy', it, call(dtw_ndim.distance_matrix, series, ndim=ndim, **o)))
        out.append(('mNc', it, call(dtw_ndim.distance_matrix, series, ndim=ndim, use_c=True, **o)))
        o.pop('use_pruning', None)  # not a parameter of dtw_ndim.distance_matrix_fast
        out.append(('mNfast', it, call(dtw_ndim.distance_matrix_fast, series, ndim=ndim, **o)))

    nb_exc = sum(1 for rec in out if isinstance(rec[-1], str) and rec[-1].startswith('EXC'))
    print('results', len(out), 'exceptions', nb_exc, file=sys.stderr)
    print('DIGEST ' + hashlib.sha256(repr(out).encode('utf-8')).hexdigest())
    return 0


if __name__ == '__main__':
    sys.exit(main())
