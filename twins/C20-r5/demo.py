#!/usr/bin/env python
"""Randomised bit-for-bit comparison for refactoring r5
(dtw.distance_fast / dtw.warping_paths_fast, the Python wrappers around the C engine).

Calls the wrappers directly and through their public callers (dtw.distance,
dtw.warping_paths, dtw.warping_path, dtw.warp, dtw.warping_path_penalty,
dtw_ndim.*) on seeded random inputs, for every container representation x
option combination, records the results bitwise, checks the inputs bitwise
after each call and repeats / interleaves calls on shared objects.
Prints `DIGEST <sha256>`.
"""
import array
import contextlib
import hashlib
import io
import logging
import os
import random
import subprocess
import sys

import numpy as np

logging.disable(logging.CRITICAL)

from dtaidistance import dtw, dtw_ndim
from dtaidistance.util import SeriesContainer


def canon(o):
    if isinstance(o, np.ndarray):
        return ('nd', str(o.dtype), o.shape, np.ascontiguousarray(o).tobytes().hex())
    if isinstance(o, np.generic):
        return ('ng', str(o.dtype), o.tobytes().hex())
    if isinstance(o, array.array):
        return ('arr', o.typecode, o.tobytes().hex())
    if isinstance(o, float):
        return ('f', o.hex())
    if isinstance(o, (bool, int, str, type(None))):
        return o
    if isinstance(o, (list, tuple)):
        return (type(o).__name__, [canon(x) for x in o])
    if isinstance(o, dict):
        return ('dict', [(k, canon(v)) for k, v in sorted(o.items())])
    if isinstance(o, SeriesContainer):
        return ('SC', canon(o.series), o.detected_ndim)
    try:
        return ('mvlike', type(o).__name__, canon(np.asarray(o)))
    except Exception:
        return ('obj', type(o).__name__)


def call(fn, *args, **kwargs):
    out = io.StringIO()
    try:
        with contextlib.redirect_stdout(out):
            r = fn(*args, **kwargs)
        return ('ok', canon(r), out.getvalue())
    except BaseException as e:  # noqa
        return ('raise', type(e).__name__, str(e), out.getvalue())


def reps_1d(x):
    """Container representations of one 1-D series with the same numeric content."""
    n = len(x)
    other = [v + 1.0 for v in x]
    return [
        ('list', lambda: list(x)),
        ('tuple', lambda: tuple(x)),
        ('arr', lambda: array.array('d', x)),
        ('nd', lambda: np.array(x, dtype=np.double)),
        ('nd_strided', lambda: np.repeat(np.array(x, dtype=np.double), 2)[::2]),
        ('nd_rev', lambda: np.array(x[::-1], dtype=np.double)[::-1]),
        ('row_of_C', lambda: np.array([other, x, other], dtype=np.double)[1]),
        ('col_of_C', lambda: np.array([other, x, other], dtype=np.double).T.copy()[:, 1]),
        ('row_of_F', lambda: np.asfortranarray(np.array([other, x, other], dtype=np.double))[1]),
        ('mv_of_arr', lambda: memoryview(array.array('d', x))),
        ('nd_f32', lambda: np.array(x, dtype=np.float32)),
        ('nd_int', lambda: np.array([int(v) for v in x])),
    ]


def reps_nd(x):
    """Container representations of one n-dimensional series (list of points)."""
    return [
        ('nd2_C', lambda: np.array(x, dtype=np.double)),
        ('nd2_F', lambda: np.asfortranarray(np.array(x, dtype=np.double))),
        ('nd2_T', lambda: np.array(x, dtype=np.double).T.copy().T),
        ('nd2_rowstrided', lambda: np.repeat(np.array(x, dtype=np.double), 2, axis=0)[::2]),
        ('nd2_colstrided', lambda: np.repeat(np.array(x, dtype=np.double), 2, axis=1)[:, ::2]),
        ('slice_of_nd3', lambda: np.array([x, x], dtype=np.double)[1]),
        ('slice_of_nd3_F', lambda: np.asfortranarray(np.array([x, x], dtype=np.double))[1]),
        ('list_of_list', lambda: [list(p) for p in x]),
    ]


def random_settings(rng, minlen):
    s = {}
    if rng.random() < 0.5:
        s['window'] = rng.choice([1, 2, 3, 5, 50])
    if rng.random() < 0.25:
        s['max_dist'] = rng.choice([0.5, 2.0, 4.0, 100.0])
    if rng.random() < 0.2:
        s['max_step'] = rng.choice([0.5, 1.5, 3.0])
    if rng.random() < 0.2:
        s['max_length_diff'] = rng.choice([0, 1, 2, 5])
    if rng.random() < 0.25:
        s['penalty'] = rng.choice([0.01, 0.5, 2.0])
    if rng.random() < 0.3 and minlen >= 3:
        # psi is kept below the shortest series: the C kernel reads outside its
        # buffers (unspecified values) when psi exceeds a series length
        s['psi'] = rng.choice([1, 2, (1, 0, 0, 1), (0, 2, 1, 0), [1, 1, 1, 1]])
    if rng.random() < 0.2:
        s['use_pruning'] = True
    if rng.random() < 0.3:
        s['inner_dist'] = rng.choice(['euclidean', 'squared euclidean'])
    return s


def main():
    import ctypes
    libc = ctypes.CDLL(None)
    sys.stdout.flush()
    saved_fd = os.dup(1)
    devnull = os.open(os.devnull, os.O_WRONLY)
    os.dup2(devnull, 1)
    try:
        summary = run()
    finally:
        sys.stdout.flush()
        libc.fflush(None)
        os.dup2(saved_fd, 1)
        os.close(devnull)
        os.close(saved_fd)
    print(summary)
    return 0


def run():
    rng = random.Random(555001)
    results = []

    # ------------------------------------------------------------------ 1-D
    for trial in range(60):
        l1 = rng.randint(1, 10)
        l2 = l1 if rng.random() < 0.3 else rng.randint(1, 10)
        prec = rng.choice([0, 1, 3, 12])
        x1 = [round(rng.uniform(-3, 3), prec) for _ in range(l1)]
        x2 = [round(rng.uniform(-3, 3), prec) for _ in range(l2)]
        r1 = reps_1d(x1)
        r2 = reps_1d(x2)
        for k in range(len(r1)):
            name1, b1 = r1[k]
            name2, b2 = r2[(k + trial) % len(r2)] if trial % 3 else r2[k]
            settings = random_settings(rng, min(l1, l2))
            only_ub = rng.random() < 0.2
            psi_neg = rng.random() < 0.5
            keep_int = rng.random() < 0.3
            s1, s2 = b1(), b2()
            before = (canon(s1), canon(s2))
            rec = ['1d', trial, name1, name2, sorted(settings.items(), key=str), only_ub, psi_neg, keep_int]
            rec.append(call(dtw.distance_fast, s1, s2, only_ub=only_ub, **settings))
            rec.append(call(dtw.distance_fast, s1, s2, only_ub, **settings))
            rec.append(call(dtw.distance, s1, s2, only_ub=only_ub, use_c=True, **settings))
            rec.append(call(dtw.distance, s1, s2, only_ub=only_ub, use_c=False, **settings))
            rec.append(call(dtw.distance_fast, s2, s1, **settings))
            rec.append(call(dtw.warping_paths_fast, s1, s2, psi_neg=psi_neg, keep_int_repr=keep_int, **settings))
            rec.append(call(dtw.warping_paths_fast, s1, s2, psi_neg, keep_int, True, **settings))
            rec.append(call(dtw.warping_paths_fast, s1, s2, compact=True, **settings))
            rec.append(call(dtw.warping_paths_fast, s1, s2, **settings))
            rec.append(call(dtw.warping_paths, s1, s2, psi_neg=psi_neg, keep_int_repr=keep_int, use_c=True,
                            **settings))
            rec.append(call(dtw.warping_paths, s1, s2, psi_neg=psi_neg, use_c=False, **settings))
            rec.append(call(dtw.warping_path, s1, s2, include_distance=True, use_c=True, **settings))
            rec.append(call(dtw.warp, s1, s2, use_c=True, **settings))
            rec.append(call(dtw.warping_path_penalty, s1, s2, penalty_post=0.25, use_c=True, **settings))
            # unexpected keyword / use_ndim on 1-D data
            rec.append(call(dtw.distance_fast, s1, s2, use_ndim=True, **settings))
            rec.append(call(dtw.warping_paths_fast, s1, s2, use_ndim=True, **settings))
            rec.append(call(dtw.distance_fast, s1, s2, nonexisting=1))
            rec.append(call(dtw.warping_paths_fast, s1, s2, inner_dist='manhattan'))
            after = (canon(s1), canon(s2))
            rec.append(before == after or ('changed', after))
            # repeat the first calls on the same objects: history independence
            rec.append(call(dtw.distance_fast, s1, s2, only_ub=only_ub, **settings))
            rec.append(call(dtw.warping_paths_fast, s1, s2, psi_neg=psi_neg, keep_int_repr=keep_int, **settings))
            results.append(tuple(rec))

    # ------------------------------------------------------------------ n-D
    for trial in range(30):
        ndim = rng.randint(1, 4)
        l1 = rng.randint(1, 8)
        l2 = l1 if rng.random() < 0.3 else rng.randint(1, 8)
        x1 = [[round(rng.uniform(-3, 3), 2) for _ in range(ndim)] for _ in range(l1)]
        x2 = [[round(rng.uniform(-3, 3), 2) for _ in range(ndim)] for _ in range(l2)]
        r1 = reps_nd(x1)
        r2 = reps_nd(x2)
        for k in range(len(r1)):
            name1, b1 = r1[k]
            name2, b2 = r2[(k + trial) % len(r2)] if trial % 3 else r2[k]
            settings = random_settings(rng, min(l1, l2))
            settings.pop('use_pruning', None) if rng.random() < 0.5 else None
            only_ub = rng.random() < 0.2
            psi_neg = rng.random() < 0.5
            keep_int = rng.random() < 0.3
            s1, s2 = b1(), b2()
            before = (canon(s1), canon(s2))
            rec = ['nd', trial, ndim, name1, name2, sorted(settings.items(), key=str), only_ub, psi_neg, keep_int]
            rec.append(call(dtw_ndim.distance_fast, s1, s2, only_ub=only_ub, **settings))
            rec.append(call(dtw.distance_fast, s1, s2, only_ub=only_ub, use_ndim=True, **settings))
            rec.append(call(dtw_ndim.distance, s1, s2, only_ub=only_ub, use_c=True, **settings))
            rec.append(call(dtw_ndim.distance, s1, s2, only_ub=only_ub, use_c=False, **settings))
            rec.append(call(dtw_ndim.warping_paths_fast, s1, s2, psi_neg=psi_neg, keep_int_repr=keep_int,
                            **settings))
            rec.append(call(dtw_ndim.warping_paths_fast, s1, s2, compact=True, **settings))
            rec.append(call(dtw.warping_paths_fast, s1, s2, psi_neg, keep_int, False, use_ndim=True, **settings))
            rec.append(call(dtw_ndim.warping_paths, s1, s2, psi_neg=psi_neg, use_c=True, **settings))
            rec.append(call(dtw_ndim.warping_path, s1, s2, use_c=True, **settings))
            # n-D data through the 1-D entry points
            rec.append(call(dtw.distance_fast, s1, s2, **settings))
            rec.append(call(dtw.warping_paths_fast, s1, s2, **settings))
            after = (canon(s1), canon(s2))
            rec.append(before == after or ('changed', after))
            rec.append(call(dtw_ndim.distance_fast, s1, s2, only_ub=only_ub, **settings))
            results.append(tuple(rec))

    # -------------------------------------------- interleaved calls on shared objects
    base = np.array([[round(rng.uniform(-2, 2), 3) for _ in range(8)] for _ in range(5)], dtype=np.double)
    base_f = np.asfortranarray(base)
    arr = array.array('d', base[0])
    snap = (canon(base), canon(base_f), canon(arr))
    seq = []
    for k in range(3):
        for i in range(5):
            for j in range(5):
                seq.append(call(dtw.distance_fast, base[i], base_f[j], window=2 + k))
                seq.append(call(dtw.warping_paths_fast, base_f[i], base[j], window=2 + k, psi=k))
                seq.append(call(dtw.distance_fast, base[:, i], base.T[j], penalty=0.1 * k))
                seq.append(call(dtw.warping_paths_fast, base[i, ::2], base_f[j, ::-1], compact=bool(k % 2)))
            seq.append(call(dtw.distance_fast, arr, base[i]))
            seq.append(call(dtw.warping_paths_fast, base[i], arr, keep_int_repr=True))
            seq.append(call(dtw.distance_matrix, base, use_c=True, compact=True))
            seq.append(call(dtw_ndim.distance_fast, base.reshape(5, 4, 2)[i], base_f.reshape(5, 4, 2)[i]))
            seq.append(call(dtw_ndim.warping_paths_fast, base.reshape(5, 4, 2)[i], base.reshape(5, 2, 4)[i].T))
    results.append(('interleaved', seq, snap == (canon(base), canon(base_f), canon(arr))))

    # a settings dictionary shared between calls must not be changed
    shared_kw = {'window': 3, 'psi': (1, 1, 0, 0), 'penalty': 0.2, 'use_pruning': True}
    kw_snap = repr(shared_kw)
    for i in range(4):
        results.append(('sharedkw', call(dtw.distance_fast, base[i], base[i + 1], **shared_kw),
                        call(dtw.warping_paths_fast, base[i], base[i + 1], **shared_kw),
                        call(dtw.warping_paths_fast, base[i], base[i + 1], compact=True, **shared_kw),
                        repr(shared_kw) == kw_snap))

    # -------------------------------------------- NumPy absent (sub-process)
    if os.environ.get('DTAIDISTANCE_TESTWITHOUTNUMPY') != '1':
        code = (
            "import array, logging; logging.disable(logging.CRITICAL)\n"
            "from dtaidistance import dtw\n"
            "a=array.array('d',[0.,1.,2.,1.,0.5]); b=array.array('d',[1.,2.,0.,0.,1.,3.])\n"
            "for kw in (dict(), dict(window=2), dict(psi=1, penalty=0.1), dict(only_ub=True), dict(use_pruning=True),"
            " dict(max_dist=1.0), dict(inner_dist='euclidean')):\n"
            "    for fn in (dtw.distance_fast, dtw.warping_paths_fast):\n"
            "        try:\n"
            "            r = fn(a, b, **kw)\n"
            "            print('ok', r.hex() if isinstance(r, float) else r)\n"
            "        except Exception as e:\n"
            "            print('raise', type(e).__name__, e)\n"
            "    try:\n"
            "        print('ok', dtw.distance(a, b, use_c=True, **kw).hex())\n"
            "    except Exception as e:\n"
            "        print('raise', type(e).__name__, e)\n"
            "print(a.tobytes().hex(), b.tobytes().hex())\n")
        env = dict(os.environ)
        env['DTAIDISTANCE_TESTWITHOUTNUMPY'] = '1'
        p = subprocess.run([sys.executable, '-c', code], env=env, stdout=subprocess.PIPE,
                           stderr=subprocess.DEVNULL, universal_newlines=True)
        results.append(('nonumpy', p.returncode, p.stdout))

    if os.environ.get('DEMO_DUMP'):
        with open(os.environ['DEMO_DUMP'], 'w') as fh:
            for rec in results:
                fh.write(repr(rec) + '\n')
    digest = hashlib.sha256(repr(results).encode('utf-8')).hexdigest()
    flat = []
    for r in results:
        for x in r:
            if isinstance(x, list):
                flat.extend(x)
            else:
                flat.append(x)
    nb_ok = sum(1 for x in flat if isinstance(x, tuple) and len(x) > 0 and x[0] == 'ok')
    nb_raise = sum(1 for x in flat if isinstance(x, tuple) and len(x) > 0 and x[0] == 'raise')
    return 'records %d ok-calls %d raising-calls %d\nDIGEST %s' % (len(results), nb_ok, nb_raise, digest)


if __name__ == '__main__':
    sys.exit(main())
