"""Randomised comparison for the OpenMP distance-matrix routines of the C engine
(dtw_distances_ptrs_parallel / dtw_distances_matrix_parallel and the ndim ones),
reached through dtw.distance_matrix(parallel=True, use_c=True) and
dtw_cc_omp.distance_matrix, next to the serial C results with the same arguments.

The script re-runs itself in child processes with different OMP_NUM_THREADS
(1..64, more threads than rows, oversubscription) and OMP_SCHEDULE / OMP_DYNAMIC
settings, and hashes everything.

Prints `DIGEST <sha256>` of the repr of every result.
"""
import hashlib
import os
import random
import subprocess
import sys

SEED = 7070707
THREADS = ['1', '2', '3', '4', '7', '16', '33', '64']


def worker():
    import numpy as np
    from dtaidistance import dtw, dtw_cc, dtw_cc_omp

    rng = random.Random(SEED)
    nrng = np.random.RandomState(SEED)

    def canon(res):
        if isinstance(res, np.ndarray):
            return ('nd', res.shape, str(res.dtype), res.tobytes().hex())
        return (type(res).__name__, [float(v).hex() for v in res])

    def call(fn, *a, **kw):
        try:
            return canon(fn(*a, **kw))
        except Exception as exc:
            return ('EXC', type(exc).__name__, str(exc))

    def rand_block(n):
        choice = rng.randint(0, 7)
        if choice == 0:
            return None
        rb = rng.randint(0, n - 1)
        re = rng.randint(rb + 1, n)
        cb = rng.randint(0, n - 1)
        ce = rng.randint(cb + 1, n)
        if choice == 1:
            return ((rb, re), (cb, ce), False)
        if choice == 2:
            return ((0, n), (0, n))
        if choice == 3:
            return ((rb, re), (0, n))
        if choice == 4:
            return ((0, re), (cb, n), False)
        if choice == 5:
            return ((0, 0), (0, 0))
        if choice == 6:
            return ((0, n), (cb, ce), False)
        return ((rb, re), (cb, ce))

    def rand_opts():
        o = {}
        if rng.random() < 0.4:
            o['window'] = rng.randint(1, 8)
        if rng.random() < 0.3:
            o['max_dist'] = round(rng.uniform(2, 25), 2)
        if rng.random() < 0.3:
            o['max_step'] = round(rng.uniform(1, 6), 2)
        if rng.random() < 0.3:
            o['max_length_diff'] = rng.randint(0, 5)
        if rng.random() < 0.3:
            o['penalty'] = round(rng.uniform(0.1, 2), 2)
        if rng.random() < 0.3:
            o['psi'] = rng.randint(0, 3)
        if rng.random() < 0.3:
            o['use_pruning'] = True
        if rng.random() < 0.25:
            o['inner_dist'] = 'euclidean'
        if 'psi' in o and 'window' in o:
            # psi larger than the window is outside the supported domain of the C kernel
            o['psi'] = min(o['psi'], o['window'])
        return o

    results = []
    n_eq = n_all = 0
    for it in range(90):
        n = rng.randint(2, 40 if it % 5 == 0 else 11)
        kind = it % 3
        if kind == 0:      # pointers: list of arrays of unequal length
            s = [nrng.uniform(-5, 5, size=rng.randint(3, 16)).round(3) for _ in range(n)]
        elif kind == 1:    # matrix: 2-D array
            s = nrng.uniform(-4, 4, size=(n, rng.randint(3, 14))).round(3)
        else:              # pointers again, equal lengths
            ln = rng.randint(3, 12)
            s = [nrng.uniform(-4, 4, size=ln).round(3) for _ in range(n)]
        block = rand_block(n)
        opts = rand_opts()
        non_triu = block is not None and len(block) > 2
        compact = True if non_triu else (rng.random() < 0.5)
        only_triu = rng.random() < 0.3
        rec = {'case': it, 'block': block, 'opts': sorted(opts.items())}
        base = dict(block=block, compact=compact, only_triu=only_triu, **opts)
        rec['omp'] = call(dtw.distance_matrix, s, parallel=True, use_c=True, **base)
        rec['fast'] = call(dtw.distance_matrix_fast, s, block=block, compact=compact,
                           only_triu=only_triu, **opts)
        rec['serial'] = call(dtw.distance_matrix, s, parallel=False, use_c=True, **base)
        # the extension functions directly
        copts = {k: (0 if v is None else v) for k, v in dtw.DTWSettings(**opts).kwargs().items()}
        rec['cc_omp'] = call(dtw_cc_omp.distance_matrix, s, block=block, **copts)
        rec['cc'] = call(dtw_cc.distance_matrix, s, block=block, **copts)
        rec['eq'] = (rec['omp'] == rec['serial'], rec['cc_omp'] == rec['cc'])
        n_all += 1
        n_eq += rec['cc_omp'] == rec['cc']
        results.append(rec)
    # n-dimensional (untouched siblings, kept as a cross-check)
    for it in range(15):
        n = rng.randint(2, 9)
        ndim = rng.randint(2, 4)
        if it % 2 == 0:
            s = nrng.uniform(-3, 3, size=(n, rng.randint(3, 9), ndim)).round(3)
        else:
            s = [nrng.uniform(-3, 3, size=(rng.randint(3, 9), ndim)).round(3) for _ in range(n)]
        block = rand_block(n)
        opts = rand_opts()
        opts.pop('inner_dist', None)
        non_triu = block is not None and len(block) > 2
        compact = True if non_triu else (rng.random() < 0.5)
        base = dict(block=block, compact=compact, use_ndim=True, **opts)
        rec = {'case': 'nd%d' % it, 'block': block, 'opts': sorted(opts.items())}
        rec['omp'] = call(dtw.distance_matrix, s, parallel=True, use_c=True, **base)
        rec['serial'] = call(dtw.distance_matrix, s, parallel=False, use_c=True, **base)
        results.append(rec)
    print('SUB', hashlib.sha256(repr(results).encode('utf-8')).hexdigest(), n_eq, n_all)
    return 0


def main():
    subs = []
    configs = [(t, None, None) for t in THREADS]
    configs += [('5', 'static,1', None), ('6', 'dynamic,2', None), ('12', 'guided,3', 'true'),
                ('48', 'dynamic', 'true')]
    for threads, sched, dyn in configs:
        env = dict(os.environ)
        env['OMP_NUM_THREADS'] = threads
        env.pop('OMP_SCHEDULE', None)
        env.pop('OMP_DYNAMIC', None)
        if sched is not None:
            env['OMP_SCHEDULE'] = sched
        if dyn is not None:
            env['OMP_DYNAMIC'] = dyn
        for rep in range(2):
            out = subprocess.run([sys.executable, os.path.abspath(__file__), '--worker'],
                                 env=env, stdout=subprocess.PIPE, stderr=subprocess.PIPE,
                                 universal_newlines=True)
            line = [l for l in out.stdout.splitlines() if l.startswith('SUB ')]
            if out.returncode != 0 or not line:
                sys.stderr.write(out.stderr)
                print('worker failed for', threads, sched, dyn)
                return 1
            subs.append((threads, sched, dyn, rep, line[0]))
    distinct = sorted(set(s[4] for s in subs))
    print('runs', len(subs), 'distinct worker digests', len(distinct), file=sys.stderr)
    print('DIGEST', hashlib.sha256(repr(subs).encode('utf-8')).hexdigest())
    return 0


if __name__ == '__main__':
    if '--worker' in sys.argv:
        sys.exit(worker())
    sys.exit(main())
