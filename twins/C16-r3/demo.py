#!/usr/bin/env python
"""Randomised comparison for property C16 (DBA k-means).

Calls KMeans.fit / KMeans.fit_fast / kmeansplusplus_centers, dba_loop, dba and the
C barycenter step (dtw_cc.dba / dtw_cc.dba_ndim) through the public API on seeded random
inputs and option combinations, and prints one line `DIGEST <sha256>` over the repr
of all results (floats are recorded as hex strings, so the comparison is bit-for-bit).
"""
import contextlib
import hashlib
import io
import logging
import random
import sys

import numpy as np

from dtaidistance import dtw, dtw_ndim, dtw_cc
from dtaidistance.clustering.kmeans import KMeans
from dtaidistance.dtw_barycenter import dba_loop, dba
from dtaidistance.util import SeriesContainer

logging.getLogger("be.kuleuven.dtai.distance").setLevel(logging.ERROR)


def fx(v):
    """Exact (bit-for-bit) representation of numbers / nested containers."""
    if v is None or isinstance(v, (str, bool)):
        return v
    if isinstance(v, (int, np.integer)):
        return int(v)
    if isinstance(v, (float, np.floating)):
        return float(v).hex()
    if isinstance(v, dict):
        return [(fx(k), fx(v[k])) for k in sorted(v.keys())]
    if isinstance(v, (set, frozenset)):
        return [fx(x) for x in sorted(v)]
    if isinstance(v, np.ndarray):
        return fx(v.tolist())
    return [fx(x) for x in v]


def make_data(rng, n, ndim, equal_length, duplicates):
    base_len = rng.randint(4, 10)
    series = []
    for i in range(n):
        ln = base_len if equal_length else rng.randint(max(3, base_len - 2), base_len + 3)
        kind = rng.randint(0, 2)
        shape = (ln,) if ndim == 1 else (ln, ndim)
        if kind == 0:
            a = np.array([rng.gauss(0, 1) for _ in range(int(np.prod(shape)))]).reshape(shape)
        elif kind == 1:
            a = np.array([float(rng.randint(-3, 3)) for _ in range(int(np.prod(shape)))]).reshape(shape)
        else:
            off = rng.uniform(-5, 5)
            a = np.array([off + rng.gauss(0, 0.3) for _ in range(int(np.prod(shape)))]).reshape(shape)
        series.append(np.ascontiguousarray(a, dtype=np.double))
    if duplicates:
        for _ in range(rng.randint(1, max(1, n // 2))):
            i, j = rng.randrange(n), rng.randrange(n)
            if equal_length or len(series[i]) == len(series[j]):
                series[j] = series[i].copy()
    if equal_length:
        return np.ascontiguousarray(np.array(series), dtype=np.double)
    return series


def make_opts(rng, allow_window=True):
    """Random DTW options.

    No window for series of different lengths: the C barycenter step sizes its
    warping-paths buffer for the longest series only (crashes, unrelated to this test).
    """
    opts = {}
    c = rng.randint(0, 11)
    if c in (1, 3, 6, 7) and not allow_window:
        c = 2
    if c == 6 or c == 7:
        c = 1
    if c == 1:
        opts['window'] = rng.randint(1, 4)
    elif c == 2:
        opts['penalty'] = rng.choice([0.1, 0.5, 2.0])
    elif c == 3:
        opts['window'] = rng.randint(2, 5)
        opts['penalty'] = rng.choice([0.25, 1.0])
    elif c == 4:
        opts['psi'] = rng.randint(0, 2)
    elif c == 5:
        opts['max_step'] = rng.choice([1.5, 3.0])
    return opts


def as_list(data):
    """Series as a list of arrays (the C engine then uses its pointers representation)."""
    return [np.ascontiguousarray(x, dtype=np.double) for x in data]


def run(fn):
    out = io.StringIO()
    try:
        with contextlib.redirect_stdout(out):
            res = fn()
        return ('ok', fx(res), out.getvalue())
    except BaseException as exc:  # noqa
        if isinstance(exc, KeyboardInterrupt):
            raise
        return ('exc', type(exc).__name__, str(exc)[:200], out.getvalue())


def kmeans_case(seed, use_parallel=False, fast=False):
    rng = random.Random(seed)
    ndim = rng.choice([1, 1, 2])
    n = rng.randint(3, 11)
    equal_length = rng.random() < 0.7
    data = make_data(rng, n, ndim, equal_length, duplicates=rng.random() < 0.4)
    k = rng.randint(1, n - 1)
    opts = make_opts(rng, allow_window=equal_length)
    use_c = rng.random() < 0.5
    if use_c and not fast:
        opts['use_c'] = True
    elif rng.random() < 0.3 and not fast:
        opts['use_c'] = False
    if (use_c or fast) and rng.random() < 0.92:
        # (a numpy matrix is kept in a few cases: the numpy bridge of the C engine raises there)
        data = as_list(data)
    mode = rng.randint(0, 3)
    kwargs = {}
    if mode == 0:
        kwargs['initialize_with_kmeanspp'] = True
    elif mode == 1:
        kwargs['initialize_with_kmeanspp'] = True
        kwargs['initialize_sample_size'] = rng.randint(1, max(1, min(3, n - k)))
    elif mode == 2:
        kwargs['initialize_with_kmeanspp'] = False
    else:
        kwargs['initialize_with_kmeanspp'] = True
        kwargs['initialize_sample_size'] = rng.randint(1, n)  # may be too large -> error path
    kwargs['drop_stddev'] = rng.choice([None, None, 0, 1, 2, 3, 0.5])
    kwargs['max_it'] = rng.choice([0, 1, 3, 10])
    kwargs['max_dba_it'] = rng.choice([1, 3, 10])
    kwargs['thr'] = rng.choice([0.0001, 0.01, 0.0])
    if (use_c or fast) and not use_parallel and rng.random() < 0.2:
        kwargs['nb_prob_samples'] = rng.randint(1, 3)
    monitor_mode = rng.randint(0, 3)
    record = []

    def monitor(cd, stopped):
        record.append((fx(cd), stopped))
        if monitor_mode == 2 and len(record) >= 2:
            return False
        return True

    def go():
        np.random.seed(seed)
        random.seed(seed + 1)
        dtw_cc.srand(seed + 2)
        model = KMeans(k=k, dists_options=dict(opts), show_progress=False, **kwargs)
        mon = monitor if monitor_mode > 0 else None
        if fast:
            cluster_idx, nit = model.fit_fast(data, monitor_distances=mon)
        else:
            cluster_idx, nit = model.fit(data, use_parallel=use_parallel, monitor_distances=mon)
        return (cluster_idx, nit, [np.asarray(m) for m in model.means], record,
                sorted(model.dists_options.items()), model.cluster_idx)

    return (seed, n, k, ndim, equal_length, sorted(opts.items()), sorted(kwargs.items(), key=str),
            use_parallel, fast, run(go))


def kmeanspp_case(seed):
    rng = random.Random(10000 + seed)
    ndim = rng.choice([1, 2])
    n = rng.randint(3, 12)
    data = make_data(rng, n, ndim, True, duplicates=rng.random() < 0.5)
    k = rng.randint(1, n - 1)
    opts = make_opts(rng)
    if rng.random() < 0.5:
        opts['use_c'] = True
        data = as_list(data)
    ss = rng.choice([None, None, 1, 2, 3])

    def go():
        np.random.seed(seed)
        random.seed(seed)
        model = KMeans(k=k, dists_options=dict(opts), show_progress=False, initialize_sample_size=ss)
        model.series = SeriesContainer.wrap(data, support_ndim=True)
        means = model.kmeansplusplus_centers(model.series)
        return [np.asarray(m) for m in means], np.random.random()

    return (seed, n, k, ndim, sorted(opts.items()), ss, run(go))


def dba_case(seed):
    rng = random.Random(20000 + seed)
    ndim = rng.choice([1, 1, 2])
    n = rng.randint(2, 9)
    equal_length = rng.random() < 0.6
    data = make_data(rng, n, ndim, equal_length, duplicates=rng.random() < 0.3)
    opts = make_opts(rng, allow_window=equal_length)
    use_c = rng.random() < 0.5
    data_c = as_list(data)
    mask = np.array([rng.random() < 0.7 for _ in range(n)], dtype=bool)
    mask_mode = rng.randint(0, 3)
    if mask_mode == 0:
        mask = None
    elif mask_mode == 1 and not mask.any():
        mask[rng.randrange(n)] = True
    c_mode = rng.randint(0, 2)
    if c_mode == 0:
        c = None
    else:
        c = np.array(data[rng.randrange(n)], dtype=np.double).copy()
    kw = dict(max_it=rng.choice([1, 2, 5, 10]), thr=rng.choice([0.001, None, 0.1, 0.0]),
              keep_averages=rng.random() < 0.3)
    if c is None and rng.random() < 0.4 and ndim == 1:
        kw['nb_initial_samples'] = rng.randint(1, n + 1)
    if use_c and rng.random() < 0.3:
        kw['nb_prob_samples'] = rng.randint(1, 3)
    results = []

    def go_loop():
        random.seed(seed)
        np.random.seed(seed)
        dtw_cc.srand(seed)
        return dba_loop(data_c if use_c else data, c=None if c is None else c.copy(),
                        mask=None if mask is None else mask.copy(), use_c=use_c, **kw, **opts)
    results.append(run(go_loop))

    def go_dba():
        random.seed(seed)
        np.random.seed(seed)
        extra = {}
        if 'nb_initial_samples' in kw:
            extra['nb_initial_samples'] = kw['nb_initial_samples']
        return dba(data_c if use_c else data, None if c is None else c.copy(),
                   mask=None if mask is None else mask.copy(), use_c=use_c, **extra, **opts)
    results.append(run(go_dba))

    # Direct call of the C barycenter step
    def go_c():
        dtw_cc.srand(seed)
        m = np.full((n,), True, dtype=bool) if mask is None else mask
        packed = np.packbits(m, bitorder='little')
        cc = np.array(data[rng.randrange(n)], dtype=np.double).copy()
        nbp = rng.choice([0, 0, 2])
        copts = {kk: vv for kk, vv in opts.items()}
        rep = rng.randint(0, 2)
        if rep == 0 or not equal_length:
            s = SeriesContainer.wrap(data_c)          # pointers -> dtw_dba_ptrs
        elif ndim == 1:
            s = dtw_cc.DTWSeriesMatrix(data)          # matrix -> dtw_dba_matrix
        else:
            s = data                                  # 3-D array -> DTWSeriesMatrixNDim -> dtw_dba_matrix
        if ndim == 1:
            dtw_cc.dba(s, cc, mask=packed, nb_prob_samples=nbp, **copts)
        else:
            dtw_cc.dba_ndim(s, cc, mask=packed, nb_prob_samples=nbp, ndim=ndim, **copts)
        return cc, nbp, rep
    results.append(run(go_c))
    return (seed, n, ndim, equal_length, use_c, sorted(opts.items()), sorted(kw.items(), key=str),
            None if mask is None else mask.tolist(), results)


def main():
    nb_serial = int(sys.argv[1]) if len(sys.argv) > 1 else 420
    nb_parallel = int(sys.argv[2]) if len(sys.argv) > 2 else 14
    all_results = []
    for seed in range(nb_serial):
        all_results.append(('kmeans', kmeans_case(seed)))
    for seed in range(nb_parallel):
        all_results.append(('kmeans-par', kmeans_case(5000 + seed, use_parallel=True)))
    for seed in range(max(2, nb_parallel // 3)):
        all_results.append(('kmeans-fast', kmeans_case(6000 + seed, use_parallel=True, fast=True)))
    for seed in range(nb_serial // 2):
        all_results.append(('kmeanspp', kmeanspp_case(seed)))
    for seed in range(nb_serial):
        all_results.append(('dba', dba_case(seed)))
    nb_ok = sum(1 for kind, r in all_results if kind.startswith('kmeans') and r[-1][0] == 'ok')
    nb_exc = sum(1 for kind, r in all_results if kind.startswith('kmeans') and r[-1][0] == 'exc')
    h = hashlib.sha256(repr(all_results).encode('utf-8')).hexdigest()
    sys.stderr.write('cases={} kmeans ok={} exc={}\n'.format(len(all_results), nb_ok, nb_exc))
    print('DIGEST ' + h)
    return 0


if __name__ == '__main__':
    sys.exit(main())
