"""Demo for refactoring r3 (property C02).

Exercises the C distance-matrix routines dtw_distances_ptrs (list of series of different
lengths) and dtw_distances_matrix (2-D numpy matrix) through dtw.distance_matrix_fast /
dtw.distance_matrix(use_c=True) / dtw_cc.distance_matrix, with and without blocks
(upper-triangular and full blocks), on seeded random series and option combinations.
The n-D matrix routines are run as well.  Prints one DIGEST line.
"""
import array
import hashlib
import math
import random
import sys

import numpy as np

from dtaidistance import dtw, dtw_ndim, dtw_cc

SEED = 20240402
rng = random.Random(SEED)
results = []


def rec(tag, fn):
    try:
        v = fn()
    except Exception as exc:  # recorded, part of the observable behaviour
        v = 'EXC:' + type(exc).__name__ + ':' + str(exc)
    if isinstance(v, float):
        v = (repr(v), v.hex() if not math.isnan(v) else 'nan')
    results.append((tag, repr(v)))
    return v


def rand_series(n, ndim=None, style=0):
    if ndim is None:
        shape = (n,)
    else:
        shape = (n, ndim)
    cnt = int(np.prod(shape))
    if style == 0:
        vals = [rng.uniform(-5, 5) for _ in range(cnt)]
    elif style == 1:
        vals = [float(rng.randint(-3, 3)) for _ in range(cnt)]
    elif style == 2:
        vals = [rng.gauss(0, 1) * 10 ** rng.randint(-3, 3) for _ in range(cnt)]
    else:
        vals = [rng.choice([0.0, 1.0, -1.0, 0.5]) for _ in range(cnt)]
    return np.array(vals, dtype=np.double).reshape(shape)


def rand_psi(l1, l2, window):
    # psi-relaxation wider than the band (or than a series) is outside the domain accepted
    # by the engines (the C kernel only asserts it), so stay inside it.
    m = min(l1, l2)
    if window is not None:
        m = min(m, window)
    k = rng.random()
    if k < 0.35:
        return None
    if k < 0.45:
        return 0
    if k < 0.70:
        return rng.randint(0, m)
    t = (rng.randint(0, m), rng.randint(0, m), rng.randint(0, m), rng.randint(0, m))
    if k < 0.85:
        return t
    return list(t)


def rand_settings(l1, l2, allow_inf=True):
    s = {}
    k = rng.random()
    if k < 0.3:
        s['window'] = None
    elif k < 0.35:
        pass
    else:
        s['window'] = rng.randint(1, max(l1, l2) + 2)
    k = rng.random()
    if k < 0.3:
        s['penalty'] = None
    elif k < 0.4:
        s['penalty'] = 0
    elif k < 0.5:
        pass
    else:
        s['penalty'] = rng.choice([0.1, 0.5, 1.0, 2.5, rng.uniform(0, 3)])
    s['psi'] = rand_psi(l1, l2, s.get('window'))
    if s['psi'] is None and rng.random() < 0.5:
        del s['psi']
    k = rng.random()
    if k < 0.55:
        s['max_step'] = None
    elif k < 0.65:
        s['max_step'] = 0
    else:
        s['max_step'] = rng.choice([1.0, 3.0, 5.0, 8.0, 12.0, rng.uniform(0.5, 15)])
    k = rng.random()
    if k < 0.5:
        s['max_dist'] = None
    elif k < 0.6:
        s['max_dist'] = 0
    else:
        s['max_dist'] = rng.choice([2.0, 5.0, 10.0, 20.0, 40.0, rng.uniform(0.5, 60)])
    k = rng.random()
    if k < 0.5:
        s['max_length_diff'] = None
    elif k < 0.58:
        s['max_length_diff'] = 0
    elif k < 0.68 and allow_inf:
        s['max_length_diff'] = math.inf
    else:
        s['max_length_diff'] = rng.randint(1, 10)
    k = rng.random()
    if k < 0.5:
        s['use_pruning'] = rng.random() < 0.5
    elif k < 0.55:
        s['use_pruning'] = None
    s['inner_dist'] = rng.choice(['squared euclidean', 'euclidean'])
    if rng.random() < 0.1:
        del s['inner_dist']
    return s


def norm(v):
    if isinstance(v, np.ndarray):
        return ('nd', v.shape, v.astype(np.double).tobytes().hex())
    if isinstance(v, array.array):
        return ('arr', v.typecode, v.tobytes().hex())
    if isinstance(v, (list, tuple)):
        return [norm(x) for x in v]
    return v


def rand_block(n):
    k = rng.random()
    if k < 0.3:
        return None
    rb = rng.randint(0, n - 1)
    re = rng.randint(rb + 1, n)
    cb = rng.randint(0, n - 1)
    ce = rng.randint(cb + 1, n)
    if k < 0.4:
        return ((0, n), (0, n))
    if k < 0.5:
        return ((rb, re), (rb, re))
    if k < 0.8:
        return ((rb, re), (cb, ce))
    if k < 0.9:
        return ((rb, re), (cb, ce), False)
    return ((rb, re), (cb, ce), True)


def series_set(n, equal_len, ndim=None):
    style = rng.randint(0, 3)
    if equal_len:
        l = rng.randint(1, 10)
        lens = [l] * n
    else:
        lens = [rng.randint(1, 10) for _ in range(n)]
    return [rand_series(l, ndim, style) for l in lens], lens


for case in range(900):
    n = rng.randint(2, 7)
    equal_len = rng.random() < 0.5
    ser, lens = series_set(n, equal_len)
    st = rand_settings(min(lens), min(lens), allow_inf=False)
    if st.get('window') is not None and rng.random() < 0.5:
        st['window'] = rng.randint(max(1, st['window'] // 2), max(lens) + 2)
        st['psi'] = rand_psi(min(lens), min(lens), st['window'])
    block = rand_block(n)
    compact = rng.random() < 0.6 or (block is not None and len(block) > 2 and block[2] is False)
    only_triu = rng.random() < 0.3
    # list of arrays -> pointers routine
    rec(('ptrs', case), lambda: norm(dtw.distance_matrix_fast(
        ser, block=block, compact=compact, parallel=False, only_triu=only_triu, **st)))
    if equal_len:
        mat = np.array(ser, dtype=np.double)
        rec(('matrix', case), lambda: norm(dtw.distance_matrix_fast(
            mat, block=block, compact=compact, parallel=False, only_triu=only_triu, **st)))
        rec(('matrix_usec', case), lambda: norm(dtw.distance_matrix(
            mat, block=block, compact=True, parallel=False, use_c=True, **st)))
    # direct call of the Cython wrapper (0 / None encodings of "option off")
    ckw = dtw.DTWSettings(**st).c_kwargs()
    rec(('cc_ptrs', case), lambda: norm(dtw_cc.distance_matrix(ser, block=block, **ckw)))
    if equal_len:
        rec(('cc_matrix', case), lambda: norm(dtw_cc.distance_matrix(mat, block=block, **ckw)))
    if case % 4 == 0:
        # pairwise single calls for the same cells (whole upper triangle)
        rec(('pairs', case), lambda: [dtw.distance_fast(ser[r], ser[c], **st)
                                      for r in range(n) for c in range(r + 1, n)])
    if case % 9 == 0:
        rec(('python_matrix', case), lambda: norm(dtw.distance_matrix(
            ser, block=block, compact=True, parallel=False, use_c=False, **st)))

# degenerate / boundary blocks straight into the Cython wrapper
for case in range(150):
    n = rng.randint(2, 6)
    ser, lens = series_set(n, rng.random() < 0.5)
    mat_ok = len(set(lens)) == 1
    for block in [None, 0, ((0, 0), (0, 0)), ((0, n), (0, 0)), ((0, 0), (0, n)), ((0, 1), (0, n)),
                  ((n - 1, n), (0, n)), ((0, n), (n - 1, n)), ((0, n), (0, n), False),
                  ((0, n), (0, 1), False), ((1, n), (0, n - 1)), ((1, n), (0, n - 1), False)]:
        rec(('cc_block', case, repr(block)), lambda: norm(dtw_cc.distance_matrix(ser, block=block)))
        if mat_ok:
            mat = np.array(ser, dtype=np.double)
            rec(('cc_block_m', case, repr(block)), lambda: norm(dtw_cc.distance_matrix(mat, block=block)))

# n-D series through the n-D matrix routines
for case in range(300):
    n = rng.randint(2, 6)
    ndim = rng.randint(1, 3)
    equal_len = rng.random() < 0.5
    ser, lens = series_set(n, equal_len, ndim)
    st = rand_settings(min(lens), min(lens), allow_inf=False)
    block = rand_block(n)
    compact = rng.random() < 0.6 or (block is not None and len(block) > 2 and block[2] is False)
    rec(('nd_ptrs', case), lambda: norm(dtw_ndim.distance_matrix(
        ser, block=block, compact=compact, parallel=False, use_c=True, **st)))
    ckw = dtw.DTWSettings(**st).c_kwargs()
    rec(('cc_nd_ptrs', case), lambda: norm(dtw_cc.distance_matrix_ndim(ser, ndim, block=block, **ckw)))
    if equal_len:
        mat = np.array(ser, dtype=np.double)
        rec(('cc_nd_matrix', case), lambda: norm(dtw_cc.distance_matrix_ndim(mat, ndim, block=block, **ckw)))
        rec(('nd_matrix', case), lambda: norm(dtw_ndim.distance_matrix(
            mat, block=block, compact=compact, parallel=False, use_c=True, **st)))

h = hashlib.sha256(repr(results).encode('utf-8')).hexdigest()
print('DIGEST', h)
print('n_results', len(results), file=sys.stderr)
sys.exit(0)
