"""Randomised comparison for SubsequenceSearch.align (k-NN search).

Runs the search through the public API on seeded random inputs and option
combinations and prints a digest of everything that was observed.
"""
import hashlib
import itertools
import logging
import random
import sys

import numpy as np

from dtaidistance import dtw
from dtaidistance.subsequence.subsequencesearch import (
    subsequence_search, SubsequenceSearch)

logging.getLogger("be.kuleuven.dtai.distance").setLevel(logging.ERROR)

results = []


def rec(tag, value):
    results.append((tag, value))


def fl(x):
    """Exact representation of a float (or whatever came back)."""
    try:
        return float(x).hex()
    except Exception:  # pragma: no cover
        return repr(x)


def observe(ss, call, arg):
    """Execute one call on the search object and record all that is visible."""
    out = []
    try:
        if call == 'kbest':
            ms = ss.kbest_matches(k=arg)
            out.append(('len', len(ms)))
            out.append(('iter', [(fl(m.distance), int(m.idx), fl(m.value)) for m in ms]))
            out.append(('str', str(ms)))
        elif call == 'kbest_fast':
            ms = ss.kbest_matches_fast(k=arg)
            out.append(('len', len(ms)))
            out.append(('iter', [(fl(m.distance), int(m.idx), fl(m.value)) for m in ms]))
        elif call == 'best':
            m = ss.best_match()
            out.append(('best', (fl(m.distance), int(m.idx), fl(m.value))))
        elif call == 'align':
            r = ss.align(k=arg)
            out.append(('align', [(fl(d), int(i)) for d, i in r]))
        elif call == 'ith':
            r = ss.get_ith_value(arg)
            out.append(('ith', (fl(r[0]), int(r[1]))))
        elif call == 'reset':
            ss.reset()
    except Exception as exc:  # record failures too: they must not change either
        out.append(('exc', type(exc).__name__, str(exc)))
    # state that later calls depend on
    out.append(('k', ss.k))
    out.append(('use_lb', ss.use_lb))
    out.append(('opt_max_dist', fl(ss.dists_options.get('max_dist'))))
    out.append(('max_dist', fl(ss.max_dist)))
    if ss.kbest_distances is None:
        out.append(('kbest', None))
    else:
        out.append(('kbest', [(fl(d), int(i)) for d, i in ss.kbest_distances]))
    if ss.distances is None:
        out.append(('distances', None))
    else:
        out.append(('distances', [fl(d) for d in ss.distances]))
    return out


def make_case(rng, nprng, ndim):
    n = rng.randint(1, 9)
    lq = rng.randint(2, 12)
    equal_len = rng.random() < 0.6
    kind = rng.choice(['float', 'int', 'coarse'])

    def series(length):
        shape = (length,) if ndim == 1 else (length, ndim)
        if kind == 'float':
            a = nprng.normal(size=shape)
        elif kind == 'int':
            a = nprng.integers(-3, 4, size=shape).astype(np.double)
        else:
            a = np.round(nprng.normal(size=shape) * 2) / 2
        return np.ascontiguousarray(a, dtype=np.double)

    query = series(lq)
    cands = []
    for _ in range(n):
        if cands and rng.random() < 0.3:
            cands.append(cands[rng.randrange(len(cands))].copy())  # duplicates -> ties
        elif rng.random() < 0.1:
            cands.append(query.copy())  # distance zero
        else:
            cands.append(series(lq if equal_len else rng.randint(2, 12)))
    return query, cands


def make_options(rng, lq):
    opts = {}
    if rng.random() < 0.6:
        opts['window'] = rng.randint(1, lq + 2)
    if rng.random() < 0.4:
        opts['penalty'] = rng.choice([0.0, 0.1, 0.5, 1.0])
    if rng.random() < 0.25:
        opts['max_dist'] = rng.choice([0.5, 1.0, 2.0, 4.0])
    if rng.random() < 0.15:
        opts['max_step'] = rng.choice([1.0, 2.0, 3.0])
    if rng.random() < 0.15:
        opts['use_pruning'] = True
    if rng.random() < 0.1:
        opts['psi'] = rng.randint(0, 2)
    if rng.random() < 0.1:
        opts['inner_dist'] = 'euclidean'
    return opts


def run():
    rng = random.Random(140014)
    nprng = np.random.default_rng(140014)
    for case in range(700):
        ndim = 1 if rng.random() < 0.8 else rng.randint(2, 3)
        query, cands = make_case(rng, nprng, ndim)
        n = len(cands)
        opts = make_options(rng, len(query))
        use_lb = rng.random() < 0.6
        use_c = rng.choice([None, False, True])
        max_dist = rng.choice([None, None, None, 1.5, 3.0])
        max_value = rng.choice([None, None, None, 0.1, 0.4])
        keep_all = rng.random() < 0.25
        as_list = rng.random() < 0.3 and use_c is not True
        q = query.tolist() if (as_list and ndim == 1) else query
        cs = [c.tolist() for c in cands] if (as_list and ndim == 1) else cands
        rec('case', (case, ndim, n, sorted(opts.items()), use_lb, use_c, max_dist, max_value,
                     keep_all, as_list))

        def build():
            if keep_all or rng.random() < 0.3:
                return SubsequenceSearch(q, cs, dists_options=opts, use_lb=use_lb,
                                         keep_all_distances=keep_all, max_dist=max_dist,
                                         max_value=max_value, use_c=use_c)
            return subsequence_search(q, cs, dists_options=opts, use_lb=use_lb,
                                      max_dist=max_dist, max_value=max_value, use_c=use_c)

        # 1. every k on a fresh object
        for k in list(range(1, n + 2)) + [None]:
            ss = build()
            rec('fresh', (k, observe(ss, 'kbest', k)))
        # 2. one object, a random history of calls
        ss = build()
        for step in range(rng.randint(2, 7)):
            call = rng.choice(['kbest', 'kbest', 'kbest', 'best', 'align', 'ith', 'reset',
                               'kbest_fast'])
            if call in ('kbest', 'align', 'kbest_fast'):
                arg = rng.choice(list(range(1, n + 2)) + [None])
            elif call == 'ith':
                arg = rng.randint(0, n)
            else:
                arg = None
            rec('hist', (step, call, arg, observe(ss, call, arg)))
        # 3. exhaustive reference through the same public distance function (for the record)
        if ndim == 1 and not opts.get('psi'):
            ref_opts = dict(opts)
            ref_opts.pop('max_dist', None)
            if use_c is not None:
                ref_opts['use_c'] = use_c
            try:
                ref = sorted((float(dtw.distance(q, c, **ref_opts)), i) for i, c in enumerate(cs))
                rec('ref', [(fl(d), i) for d, i in ref])
            except Exception as exc:
                rec('ref', ('exc', type(exc).__name__, str(exc)))


if __name__ == '__main__':
    run()
    digest = hashlib.sha256(repr(results).encode('utf-8')).hexdigest()
    print('records', len(results), file=sys.stderr)
    print('DIGEST ' + digest)
    sys.exit(0)
