#!/usr/bin/env python
"""Randomised comparison for property C07 (parallel distance matrix == serial one).

Run with PYTHONPATH=<worktree>/src.  Without arguments the script
  * re-runs itself as a worker once per OMP_NUM_THREADS value (the OpenMP thread
    count can only be chosen through the environment before the runtime starts),
  * runs the multiprocessing / pure Python part once in-process,
and prints  DIGEST <sha256 of the repr of all results>.
"""
import os
import sys
import random
import hashlib
import subprocess
import array

import numpy as np

THREADS = ['1', '2', '3', '5', '8', '16', '33', '64']
SEED = 70707


def lib():
    """Import the library.  The numpy helper extension (dtw_cc_numpy) cannot build its
    containers in this environment (pre-existing, unrelated); switch it off so that
    SeriesContainer.c_data_compat takes its documented fallback (dtw_cc.dtw_series_from_data),
    which yields DTWSeriesMatrix / DTWSeriesMatrixNDim for 2-D / 3-D numpy arrays."""
    import logging
    logging.getLogger("be.kuleuven.dtai.distance").setLevel(logging.ERROR)
    from dtaidistance import util, dtw, dtw_cc, dtw_cc_omp
    util.dtw_cc_numpy = None
    return dtw, dtw_cc, dtw_cc_omp


def rnd_block(rng, n, allow_full=True):
    """Random valid block ((rb, re), (cb, ce)[, False]) or None."""
    k = rng.random()
    if k < 0.2:
        return None
    rb = rng.randrange(0, n)
    re = rng.randrange(rb + 1, n + 1)
    cb = rng.randrange(0, n)
    ce = rng.randrange(cb + 1, n + 1)
    if allow_full and rng.random() < 0.4:
        return ((rb, re), (cb, ce), False)
    if rng.random() < 0.15:
        return ((rb, re), (cb, ce), True)
    return ((rb, re), (cb, ce))


def rnd_settings(rng, maxlen):
    kw = {}
    if rng.random() < 0.5:
        kw['window'] = rng.randrange(1, maxlen + 2)
    if rng.random() < 0.3:
        kw['max_dist'] = rng.choice([0.5, 1.5, 3.0, 10.0])
    if rng.random() < 0.3:
        kw['max_step'] = rng.choice([0.3, 1.0, 2.5])
    if rng.random() < 0.3:
        kw['max_length_diff'] = rng.randrange(0, 4)
    if rng.random() < 0.3:
        kw['penalty'] = rng.choice([0.1, 0.5, 2.0])
    if rng.random() < 0.3:
        kw['psi'] = rng.randrange(0, 3)
    if rng.random() < 0.3:
        kw['use_pruning'] = True
    if rng.random() < 0.3:
        kw['inner_dist'] = 'euclidean'
    return kw


def fix_psi(kw, s):
    """psi relaxation larger than a series makes the (serial and parallel) kernel read
    uninitialised memory (pre-existing, unrelated to this property): keep psi well below
    the shortest series so that every result is deterministic."""
    if 'psi' in kw:
        minlen = min(len(x) for x in s)
        if minlen < kw['psi'] + 3:
            del kw['psi']


def rnd_series(rng, form):
    """form: 'ptrs' (list of 1-D arrays, ragged), 'matrix' (2-D numpy),
    'ndim_ptrs' (list of 2-D arrays, ragged), 'ndim_matrix' (3-D numpy)."""
    n = rng.randrange(2, 14)
    nprng = np.random.RandomState(rng.randrange(2 ** 31))
    if form == 'ptrs':
        s = [np.round(nprng.randn(rng.randrange(1, 12)), 2).astype(np.double) for _ in range(n)]
        return s, n, 12
    if form == 'matrix':
        m = rng.randrange(1, 12)
        return np.round(nprng.randn(n, m), 2).astype(np.double), n, m
    if form == 'ndim_ptrs':
        d = rng.randrange(1, 4)
        s = [np.round(nprng.randn(rng.randrange(1, 10), d), 2).astype(np.double) for _ in range(n)]
        return s, n, 10
    if form == 'ndim_matrix':
        d = rng.randrange(1, 4)
        m = rng.randrange(1, 10)
        return np.round(nprng.randn(n, m, d), 2).astype(np.double), n, m
    raise ValueError(form)


def tolist(x):
    if isinstance(x, tuple) and len(x) == 2 and x[0] == 'EXC':
        return x
    if isinstance(x, np.ndarray):
        return x.tolist()
    return list(x)


def safe(fn, *args, **kwargs):
    """Call fn; an exception is part of the observable result (type and message)."""
    try:
        return fn(*args, **kwargs)
    except Exception as exc:  # noqa
        return ('EXC', type(exc).__name__ + ': ' + str(exc))


def omp_part():
    """C engine: OpenMP routines versus the serial C routines (all four data forms)."""
    dtw, dtw_cc, dtw_cc_omp = lib()
    from dtaidistance.util import SeriesContainer
    rng = random.Random(SEED)
    out = []
    forms = ['ptrs', 'matrix', 'ndim_ptrs', 'ndim_matrix']
    for i in range(320):
        form = forms[i % 4]
        s, n, maxlen = rnd_series(rng, form)
        block = rnd_block(rng, n)
        kw = rnd_settings(rng, maxlen)
        fix_psi(kw, s)
        use_ndim = form.startswith('ndim')
        raw = s
        if form == 'ndim_matrix':
            # dtw_series_from_data cannot return a DTWSeriesMatrixNDim (pre-existing typing
            # problem); hand the container the 3-D view directly so that the
            # dtw_distances_ndim_matrix(_parallel) routines are reached.
            s = SeriesContainer.wrap(raw)
            s.c_data_compat = (lambda a: (lambda: dtw_cc.DTWSeriesMatrixNDim(a)))(raw)
        par = safe(dtw.distance_matrix, s, block=block, compact=True, parallel=True, use_c=True,
                                  use_ndim=use_ndim, **kw)
        ser = safe(dtw.distance_matrix, s, block=block, compact=True, parallel=False, use_c=True,
                                  use_ndim=use_ndim, **kw)
        par = tolist(par)
        ser = tolist(ser)
        out.append((form, n, block, sorted(kw.items()), par, par == ser))
        # full matrix form (only for triu blocks)
        if block is None or len(block) == 2 or block[2] is not False:
            only_triu = rng.random() < 0.5
            full = safe(dtw.distance_matrix, s, block=block, compact=False, parallel=True, use_c=True,
                                       use_ndim=use_ndim, only_triu=only_triu, **kw)
            out.append(tolist(full))
        # direct calls of the Cython wrappers (bypass dtw.py)
        if i % 5 == 0:
            ckw = dict(kw)
            if 'inner_dist' in ckw:
                ckw['inner_dist'] = 1
            if use_ndim:
                ndim = raw[0].shape[1] if isinstance(raw, list) else raw.shape[2]
                d1 = safe(dtw_cc_omp.distance_matrix_ndim, raw, ndim, block=block, **ckw)
                d2 = safe(dtw_cc.distance_matrix_ndim, raw, ndim, block=block, **ckw)
                if form == 'ndim_matrix':
                    d3 = safe(dtw_cc_omp.distance_matrix_ndim, s, ndim, block=block, **ckw)
                    out.append(tolist(d3))
            else:
                d1 = safe(dtw_cc_omp.distance_matrix, raw, block=block, **ckw)
                d2 = safe(dtw_cc.distance_matrix, raw, block=block, **ckw)
            out.append((tolist(d1), tolist(d1) == tolist(d2)))
    # distance_matrix_fast (defaults: OpenMP)
    for i in range(40):
        s, n, maxlen = rnd_series(rng, forms[i % 2])
        block = rnd_block(rng, n, allow_full=False)
        out.append(tolist(safe(dtw.distance_matrix_fast, s, block=block, compact=True)))
    return out


def mp_part():
    """multiprocessing around the C single-pair routine and around the Python routine,
    plus the index-plan helpers used by those branches."""
    dtw, _, _ = lib()
    rng = random.Random(SEED + 1)
    out = []
    # index plan helpers on a broad range of blocks
    for _ in range(1500):
        n = rng.randrange(1, 20)
        block = rnd_block(rng, n)
        if rng.random() < 0.05:
            block = 0 if rng.random() < 0.5 else None
        idxs = dtw._distance_matrix_idxs(block, n)
        length = safe(dtw._distance_matrix_length, block, n)
        out.append((n, block, tolist(idxs[0]), tolist(idxs[1]), length,
                    type(length).__name__))
        if block is not None and block != 0 and len(block) == 2 or block is None:
            d = [float(k) for k in range(len(idxs[0]))]
            out.append(tolist(safe(dtw.distances_array_to_matrix, d, n, block=block,
                                                            only_triu=rng.random() < 0.5)))
    # numpy-less variant of the index plan
    saved = dtw.np
    try:
        dtw.np = None
        for _ in range(300):
            n = rng.randrange(1, 20)
            block = rnd_block(rng, n)
            idxs = dtw._distance_matrix_idxs(block, n)
            out.append((n, block, idxs, dtw._distance_matrix_length(block, n)))
    finally:
        dtw.np = saved
    # serial Python versus multiprocessing (Python and C single-pair routine)
    forms = ['ptrs', 'matrix', 'ndim_ptrs', 'ndim_matrix']
    for i in range(24):
        form = forms[i % 4]
        s, n, maxlen = rnd_series(rng, form)
        block = rnd_block(rng, n)
        kw = rnd_settings(rng, maxlen)
        fix_psi(kw, s)
        use_ndim = form.startswith('ndim')
        ser = tolist(safe(dtw.distance_matrix, s, block=block, compact=True, parallel=False, use_c=False,
                                         use_ndim=use_ndim, **kw))
        par = tolist(safe(dtw.distance_matrix, s, block=block, compact=True, parallel=True, use_c=False,
                                         use_ndim=use_ndim, **kw))
        cmp_ = tolist(safe(dtw.distance_matrix, s, block=block, compact=True, parallel=True, use_c=True,
                                          use_mp=True, use_ndim=use_ndim, **kw))
        out.append((form, n, block, sorted(kw.items()), ser, par, cmp_, ser == par))
        if block is None or len(block) == 2 or block[2] is not False:
            full = safe(dtw.distance_matrix, s, block=block, compact=False, parallel=True, use_c=False,
                                       use_ndim=use_ndim, **kw)
            out.append(tolist(full))
    # serial Python routine on many more inputs (it is the reference of the property)
    for i in range(150):
        form = forms[i % 4]
        s, n, maxlen = rnd_series(rng, form)
        block = rnd_block(rng, n)
        kw = rnd_settings(rng, maxlen)
        fix_psi(kw, s)
        use_ndim = form.startswith('ndim')
        ser = tolist(safe(dtw.distance_matrix, s, block=block, compact=True, parallel=False, use_c=False,
                                         use_ndim=use_ndim, **kw))
        out.append(ser)
    return out


def main():
    if len(sys.argv) > 1 and sys.argv[1] == '--omp-worker':
        res = omp_part()
        sys.stdout.write('RES ' + hashlib.sha256(repr(res).encode()).hexdigest() + ' '
                         + str(sum(1 for r in res if isinstance(r, tuple) and r[-1] is False)) + '\n')
        return 0
    parts = []
    for t in THREADS:
        env = dict(os.environ)
        env['OMP_NUM_THREADS'] = t
        env['OMP_DYNAMIC'] = 'FALSE'
        env['OMP_WAIT_POLICY'] = 'PASSIVE'
        r = subprocess.run([sys.executable, os.path.abspath(__file__), '--omp-worker'],
                           env=env, stdout=subprocess.PIPE, stderr=subprocess.PIPE, text=True)
        if r.returncode != 0:
            sys.stderr.write(r.stderr)
            return 1
        line = [l for l in r.stdout.splitlines() if l.startswith('RES ')][-1]
        parts.append(('omp', t, line))
    parts.append(('mp', mp_part()))
    print('DIGEST ' + hashlib.sha256(repr(parts).encode()).hexdigest())
    return 0


if __name__ == '__main__':
    sys.exit(main())
