"""Bit-for-bit comparison driver for dtaidistance.similarity.

Calls distance_to_similarity and squash through the public API on a broad set
of seeded random inputs and option combinations and prints a single
`DIGEST <sha256>` line over the repr of every result (arrays are recorded as
dtype / shape / raw bytes, so the comparison is exact to the last bit).
"""
import hashlib
import itertools
import warnings

import numpy as np

from dtaidistance import similarity

warnings.simplefilter("ignore")
np.seterr(all="ignore")


def enc(v):
    """Exact, deterministic encoding of a result value."""
    if isinstance(v, tuple):
        return "T(" + ",".join(enc(x) for x in v) + ")"
    if isinstance(v, np.ndarray):
        return "A[{}|{}|{}]".format(v.dtype.str, v.shape, np.ascontiguousarray(v).tobytes().hex())
    if isinstance(v, np.generic):
        return "G[{}|{}|{}]".format(type(v).__name__, v.dtype.str, v.tobytes().hex())
    if isinstance(v, float):
        return "F[{}]".format(v.hex())
    return "O[{}|{!r}]".format(type(v).__name__, v)


def call(fn, *args, **kwargs):
    try:
        return "OK:" + enc(fn(*args, **kwargs))
    except Exception as exc:  # exception type and message are part of the behaviour
        return "EXC:{}:{}".format(type(exc).__name__, exc)


def make_inputs(rng):
    inputs = []
    for shape in [(1,), (2,), (7,), (40,), (1, 1), (3, 4), (6, 6), (2, 3, 4), (5, 1)]:
        for scale in [1e-3, 1.0, 37.5, 1e4]:
            x = rng.random(shape) * scale
            inputs.append(("u{}x{}".format(shape, scale), x))
        x = rng.exponential(3.0, size=shape)
        inputs.append(("e{}".format(shape), x))
        # with zeros and duplicates
        x = np.round(rng.random(shape) * 4.0) / 2.0
        inputs.append(("z{}".format(shape), x))
        x = rng.random(shape) * 10
        x.flat[0] = 0.0
        inputs.append(("z0{}".format(shape), x))
    inputs.append(("allzero", np.zeros((4,))))
    inputs.append(("const", np.full((3, 3), 2.5)))
    inputs.append(("int", rng.integers(0, 20, size=(5, 5))))
    inputs.append(("int1", np.array([7])))
    inputs.append(("f32", (rng.random((4, 4)) * 9).astype(np.float32)))
    inputs.append(("scalar", np.float64(3.25)))
    inputs.append(("pyfloat", 2.75))
    inputs.append(("list", [0.0, 1.0, 2.0, 2.0]))
    # symmetric distance-matrix like
    m = rng.random((6, 6)) * 12
    m = (m + m.T) / 2
    np.fill_diagonal(m, 0.0)
    inputs.append(("dm", m))
    # upper triangular with inf elsewhere (as dtw.distance_matrix returns)
    mi = np.triu(m, 1)
    mi[np.tril_indices(6)] = np.inf
    inputs.append(("dminf", mi))
    return inputs


def make_signed_inputs(rng):
    inputs = []
    for shape in [(1,), (9,), (4, 5), (2, 2, 3)]:
        x = rng.normal(0.0, 5.0, size=shape)
        inputs.append(("n{}".format(shape), x))
        x = np.round(rng.normal(0.0, 2.0, size=shape))
        inputs.append(("nz{}".format(shape), x))
    return inputs


COVER = [False, 0.5, 0.9, 0.25, (0.8, 0.3), [0.6, 0.9], (0.95, 0.05), 0.0, 1.0, (0.5,), True, None]


def run():
    rng = np.random.default_rng(20240919)
    out = []
    inputs = make_inputs(rng)
    signed = make_signed_inputs(rng)

    # ---------------------------------------------------- distance_to_similarity
    d2s_methods = ['exponential', 'gaussian', 'reciprocal', 'reverse',
                   'Exponential', 'GAUSSIAN', 'Reciprocal', 'REVERSE', 'logistic', '']
    for (name, D), method, cq, rp in itertools.product(inputs, d2s_methods, COVER, [False, True]):
        out.append(("d2s", name, method, repr(cq), rp,
                    call(similarity.distance_to_similarity, D, method=method,
                         return_params=rp, cover_quantile=cq)))
    # explicit r / a
    r_values = [None, 1, 0.5, 3.0, 17.25, np.float64(2.5), -1.5, 0]
    a_values = [None, 1, 0.25, 4.0, np.float64(1.5)]
    for (name, D), method, r, a, cq in itertools.product(
            inputs[::3], ['exponential', 'gaussian', 'reciprocal', 'reverse'], r_values, a_values,
            [False, 0.7, (0.8, 0.3)]):
        out.append(("d2s-ra", name, method, repr(r), repr(a), repr(cq),
                    call(similarity.distance_to_similarity, D, r, a, method, True, cq)))
    # positional / default calls
    for name, D in inputs:
        out.append(("d2s-def", name, call(similarity.distance_to_similarity, D)))
        out.append(("d2s-pos", name, call(similarity.distance_to_similarity, D, 2.0, 3.0, 'reciprocal', True)))
    # re-apply with reported params
    for (name, D), method, cq in itertools.product(
            inputs, ['exponential', 'gaussian', 'reciprocal', 'reverse'], [False, 0.9, (0.8, 0.3)]):
        try:
            S, r = similarity.distance_to_similarity(D, method=method, return_params=True, cover_quantile=cq)
            out.append(("d2s-re", name, method, repr(cq),
                        call(similarity.distance_to_similarity, D, r=r, method=method, return_params=True)))
        except Exception as exc:
            out.append(("d2s-re", name, method, repr(cq), "EXC:" + type(exc).__name__))
    # random parameter draws
    for i in range(400):
        shape = tuple(int(v) for v in rng.integers(1, 6, size=int(rng.integers(1, 4))))
        D = rng.random(shape) * float(rng.choice([0.1, 1.0, 25.0, 1000.0]))
        if rng.random() < 0.3:
            D.flat[int(rng.integers(0, D.size))] = 0.0
        method = str(rng.choice(['exponential', 'gaussian', 'reciprocal', 'reverse']))
        r = None if rng.random() < 0.4 else float(rng.random() * 10 + 0.01)
        a = None if rng.random() < 0.5 else float(rng.random() * 5 + 0.01)
        u = rng.random()
        if u < 0.35:
            cq = False
        elif u < 0.65:
            cq = float(rng.random() * 0.98 + 0.01)
        else:
            cq = (float(rng.random() * 0.98 + 0.01), float(rng.random() * 0.98 + 0.01))
            if rng.random() < 0.5:
                cq = list(cq)
        rp = bool(rng.random() < 0.5)
        out.append(("d2s-rnd", i, call(similarity.distance_to_similarity, D, r=r, a=a, method=method,
                                         return_params=rp, cover_quantile=cq)))

    # -------------------------------------------------------------------- squash
    sq_methods = ['logistic', 'gaussian', 'exponential', 'Logistic', 'reverse', '']
    for (name, X), method, cq, rp, ks in itertools.product(
            inputs, sq_methods, COVER, [False, True], [False, True]):
        out.append(("sq", name, method, repr(cq), rp, ks,
                    call(similarity.squash, X, method=method, return_params=rp,
                         keep_sign=ks, cover_quantile=cq)))
    for (name, X), method, cq, ks in itertools.product(
            signed, ['logistic', 'gaussian', 'exponential'], [False, 0.5, 0.9, (0.8, 0.3), [0.6, 0.9]],
            [False, True, 1, 0]):
        out.append(("sq-signed", name, method, repr(cq), ks,
                    call(similarity.squash, X, method=method, return_params=True,
                         keep_sign=ks, cover_quantile=cq)))
    r_values = [None, 1, 0.5, 3.0, np.float64(2.5), -1.5, 0]
    base_values = [None, 2, 10.0, np.e, 0.5, 1]
    x0_values = [None, 0, 1.5, np.float64(4.0), -2.0]
    for (name, X), method, r, base, x0, ks in itertools.product(
            inputs[::4] + signed[::2], ['logistic', 'gaussian', 'exponential'], r_values, base_values,
            x0_values, [False, True]):
        out.append(("sq-par", name, method, repr(r), repr(base), repr(x0), ks,
                    call(similarity.squash, X, r, base, x0, method, True, ks)))
    for (name, X), method, base, x0, cq in itertools.product(
            inputs[::5], ['logistic', 'gaussian', 'exponential'], [None, 2, 10.0], [None, 1.5],
            [0.5, (0.8, 0.3), [0.6, 0.9]]):
        out.append(("sq-cq", name, method, repr(base), repr(x0), repr(cq),
                    call(similarity.squash, X, base=base, x0=x0, method=method, return_params=True,
                         cover_quantile=cq)))
    for name, X in inputs + signed:
        out.append(("sq-def", name, call(similarity.squash, X)))
    # re-apply with reported params
    for (name, X), method, cq, ks, base in itertools.product(
            inputs + signed, ['logistic', 'gaussian', 'exponential'], [False, 0.9, (0.8, 0.3)],
            [False, True], [None, 3.0]):
        try:
            res, r, x0 = similarity.squash(X, base=base, method=method, return_params=True, keep_sign=ks,
                                           cover_quantile=cq)
            out.append(("sq-re", name, method, repr(cq), ks, repr(base),
                        call(similarity.squash, X, r=r, base=base, x0=x0, method=method,
                             return_params=True, keep_sign=ks)))
        except Exception as exc:
            out.append(("sq-re", name, method, repr(cq), ks, repr(base), "EXC:" + type(exc).__name__))
    # random parameter draws
    for i in range(400):
        shape = tuple(int(v) for v in rng.integers(1, 6, size=int(rng.integers(1, 4))))
        X = rng.random(shape) * float(rng.choice([0.1, 1.0, 25.0, 1000.0]))
        ks = bool(rng.random() < 0.5)
        if ks:
            X = X - X.mean()
        method = str(rng.choice(['logistic', 'gaussian', 'exponential']))
        r = None if rng.random() < 0.4 else float(rng.random() * 10 + 0.01)
        base = None if rng.random() < 0.5 else float(rng.random() * 9 + 1.1)
        x0 = None if rng.random() < 0.5 else float(rng.random() * 10)
        u = rng.random()
        if u < 0.35:
            cq = False
        elif u < 0.65:
            cq = float(rng.random() * 0.98 + 0.01)
        else:
            cq = (float(rng.random() * 0.98 + 0.01), float(rng.random() * 0.98 + 0.01))
            if rng.random() < 0.5:
                cq = list(cq)
        rp = bool(rng.random() < 0.5)
        out.append(("sq-rnd", i, call(similarity.squash, X, r=r, base=base, x0=x0, method=method,
                                        return_params=rp, keep_sign=ks, cover_quantile=cq)))
    return out


if __name__ == "__main__":
    results = run()
    digest = hashlib.sha256(repr(results).encode("utf-8")).hexdigest()
    print("NRESULTS", len(results))
    print("DIGEST", digest)
