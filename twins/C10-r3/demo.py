"""Demo for r3: column-range helper shared by distance_matrix_python and _distance_matrix_idxs.

Calls the distance-matrix routines of dtaidistance.dtw through the public API on
seeded random inputs (equal / unequal lengths, 1-dim and n-dim, Python and C engine,
many option combinations, many block shapes) and prints a digest of all results.
"""
import hashlib
import random
import sys

import numpy as np

from dtaidistance import dtw, dtw_ndim

results = []


def rec(tag, value):
    if isinstance(value, np.ndarray):
        value = ('nd', value.shape, value.tolist())
    elif isinstance(value, tuple) and all(isinstance(v, np.ndarray) for v in value):
        value = tuple(v.tolist() for v in value)
    elif hasattr(value, 'tolist'):
        value = value.tolist()
    results.append((tag, repr(value)))


def call(tag, fn, *args, **kwargs):
    try:
        rec(tag, fn(*args, **kwargs))
    except Exception as exc:  # exceptions are part of the observable behaviour
        results.append((tag, 'EXC ' + type(exc).__name__ + ' ' + str(exc)))


rng = random.Random(20240610)
nprng = np.random.RandomState(777)


def rand_series_set(n, equal, ndim=None):
    out = []
    base_len = rng.randint(3, 9)
    for _ in range(n):
        length = base_len if equal else rng.randint(2, 10)
        if ndim is None:
            out.append(np.round(nprng.randn(length) * 2, 3).astype(np.double))
        else:
            out.append(np.round(nprng.randn(length, ndim) * 2, 3).astype(np.double))
    return out


def rand_opts():
    opts = {}
    if rng.random() < 0.6:
        opts['window'] = rng.randint(1, 6)
    if rng.random() < 0.4:
        opts['psi'] = rng.choice([1, 2, (1, 0, 2, 1), (0, 2, 0, 1)])
    if rng.random() < 0.4:
        opts['penalty'] = rng.choice([0.1, 0.5, 2.0])
    if rng.random() < 0.3:
        opts['max_step'] = rng.choice([1.0, 2.5, 4.0])
    if rng.random() < 0.25:
        opts['max_dist'] = rng.choice([2.0, 5.0])
    if rng.random() < 0.2:
        opts['use_pruning'] = True
    if rng.random() < 0.2:
        opts['max_length_diff'] = rng.randint(0, 4)
    if rng.random() < 0.3:
        opts['inner_dist'] = 'euclidean'
    return opts


def rand_block(n, valid_only=False):
    kind = rng.randint(0, 5)
    if kind == 0:
        return None
    rb = rng.randint(0, n - 1)
    re = rng.randint(rb, n)
    cb = rng.randint(0, n - 1)
    ce = rng.randint(cb, n + 1)   # may exceed the number of series
    if valid_only:
        # the C engine does not guard against empty / out-of-range blocks
        re = max(re, rb + 1)
        ce = min(max(ce, cb + 1), n)
    if kind == 1:
        return ((rb, re), (cb, ce))
    if kind == 2:
        return ((rb, re), (cb, ce), False)
    if kind == 3:
        return ((rb, re), (cb, ce), True)
    if kind == 4:
        return ((0, n), (0, n))
    return ((0, max(1, n // 2)), (n // 2, n), False)


# 1. index helpers / condensed length / mirroring, no distances involved
for n in range(1, 9):
    for _ in range(25):
        block = rand_block(n)
        call(('idxs', n, block), dtw._distance_matrix_idxs, block, n)
        call(('len', n, block), dtw._distance_matrix_length, block, n)
        try:
            length = dtw._distance_matrix_length(block, n)
            dists = np.round(nprng.rand(length), 4)
        except Exception:
            continue
        for only_triu in (False, True):
            call(('a2m', n, block, only_triu), dtw.distances_array_to_matrix,
                 dists, nb_series=n, block=block, only_triu=only_triu)

# 2. pure Python distance matrices
for trial in range(140):
    n = rng.randint(2, 6)
    equal = rng.random() < 0.5
    series = rand_series_set(n, equal)
    opts = rand_opts()
    block = rand_block(n)
    if equal and rng.random() < 0.5:
        series_in = np.array(series)
    else:
        series_in = series
    call(('dmpy', trial), dtw.distance_matrix_python, series_in, block=block,
         settings=dtw.DTWSettings(**opts))
    for compact in (True, False):
        for only_triu in (False, True):
            call(('dm', trial, compact, only_triu), dtw.distance_matrix, series_in, block=block,
                 compact=compact, only_triu=only_triu, **opts)

# 3. C engine distance matrices (serial and OpenMP) -- they share the index helpers for the full matrix
for trial in range(140):
    n = rng.randint(2, 6)
    equal = rng.random() < 0.5
    series = rand_series_set(n, equal)
    opts = rand_opts()
    block = rand_block(n, valid_only=True)
    for parallel in (False, True):
        for compact in (True, False):
            call(('dmc', trial, parallel, compact), dtw.distance_matrix, series, block=block,
                 compact=compact, parallel=parallel, use_c=True, **opts)
    call(('dmfast', trial), dtw.distance_matrix_fast, series, block=block,
         only_triu=rng.random() < 0.5, **{k: v for k, v in opts.items()})

# 4. n-dim, both engines
for trial in range(60):
    n = rng.randint(2, 5)
    ndim = rng.randint(2, 3)
    series = rand_series_set(n, rng.random() < 0.5, ndim=ndim)
    opts = rand_opts()
    block = rand_block(n, valid_only=True)
    for use_c in (False, True):
        for compact in (True, False):
            call(('dmnd', trial, use_c, compact), dtw_ndim.distance_matrix, series, block=block,
                 compact=compact, use_c=use_c, **opts)

# 5. laws of the property on the mirrored matrix (symmetric, zero diagonal, non-negative)
for trial in range(40):
    n = rng.randint(2, 6)
    series = rand_series_set(n, rng.random() < 0.5)
    opts = {}
    if rng.random() < 0.7:
        opts['window'] = rng.randint(1, 5)
    if rng.random() < 0.5:
        opts['penalty'] = rng.choice([0.1, 1.0])
    for use_c in (False, True):
        m = dtw.distance_matrix(series, use_c=use_c, **opts)
        rec(('law', trial, use_c), (bool((m == m.T).all()), bool((np.diag(m) == 0).all()),
                                    bool((m >= 0).all())))
        rec(('lawm', trial, use_c), m)

digest = hashlib.sha256(repr(results).encode('utf-8')).hexdigest()
print('NRESULTS', len(results))
print('DIGEST', digest)
sys.exit(0)
