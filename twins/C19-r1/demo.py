"""Randomised bit-for-bit comparison of similarity.distance_to_similarity and similarity.squash.

Prints `DIGEST <sha256>` over the repr of all results (arrays are recorded as
shape/dtype/raw bytes so that nothing is rounded away by the array repr).
"""
import hashlib
import warnings

import numpy as np

from dtaidistance import similarity

warnings.simplefilter("ignore")
np.seterr(all="ignore")


def enc(v):
    if isinstance(v, tuple):
        return ("tuple",) + tuple(enc(x) for x in v)
    if isinstance(v, np.ndarray):
        return ("nd", v.shape, str(v.dtype), v.tobytes().hex())
    if isinstance(v, np.generic):
        return ("npscalar", str(v.dtype), v.tobytes().hex())
    if isinstance(v, float):
        return ("float", v.hex())
    return (type(v).__name__, repr(v))


def call(fn, *args, **kwargs):
    try:
        return enc(fn(*args, **kwargs))
    except Exception as exc:  # the kind of failure is part of the behaviour
        return ("exc", type(exc).__name__, str(exc))


def make_inputs(rng):
    inputs = []
    for shape in [(1,), (2,), (7,), (30,), (1, 1), (3, 4), (6, 6), (2, 3, 4)]:
        for scale in (0.01, 1.0, 37.5, 1e4):
            D = rng.random(shape) * scale
            inputs.append(D)
            # zeros and duplicates
            D2 = D.copy()
            flat = D2.reshape(-1)
            flat[rng.integers(0, flat.size)] = 0.0
            if flat.size > 2:
                flat[rng.integers(0, flat.size)] = flat[rng.integers(0, flat.size)]
            inputs.append(D2)
    inputs.append(np.zeros((4,)))
    inputs.append(np.zeros((3, 3)))
    inputs.append(np.full((5,), 2.5))
    inputs.append(np.array([0.0, 1.0, 1.0, 2.0, 2.0, 3.0]))
    inputs.append(rng.integers(0, 9, size=(4, 5)).astype(float))
    inputs.append(rng.integers(0, 9, size=(8,)))  # integer dtype
    inputs.append(rng.random((9,)).astype(np.float32) * 5)
    # symmetric distance matrix with a zero diagonal
    A = rng.random((7, 7)) * 12
    A = (A + A.T) / 2
    np.fill_diagonal(A, 0.0)
    inputs.append(A)
    return inputs


def main():
    rng = np.random.default_rng(190019)
    inputs = make_inputs(rng)
    signed = [x - np.mean(x) for x in inputs[:40:3]] + [rng.standard_normal((5, 4)) * 3]
    results = []

    d2s_methods = ['exponential', 'gaussian', 'reciprocal', 'reverse',
                   'Exponential', 'GAUSSIAN', 'Reciprocal', 'ReVerse', 'logistic', '']
    cqs = [False, 0.0, 0.25, 0.5, 0.9, 1.0, (0.5, 0.3), [0.75, 0.1], (0.9, 0.9), (0.2, 1.0), True]
    for i, D in enumerate(inputs):
        for method in d2s_methods:
            for cq in cqs:
                for rp in (False, True):
                    results.append(("d2s", i, method, repr(cq), rp,
                                    call(similarity.distance_to_similarity, D, method=method,
                                         return_params=rp, cover_quantile=cq)))
            # explicit parameters
            for _ in range(4):
                r = float(rng.choice([0.1, 0.5, 1.0, 2.0, 10.0, 123.456])) * float(rng.random() + 0.5)
                a = float(rng.choice([0.25, 1.0, 3.0])) * float(rng.random() + 0.5)
                cq = cqs[int(rng.integers(0, len(cqs)))]
                results.append(("d2s-r", i, method, r,
                                call(similarity.distance_to_similarity, D, r, None, method, True, cq)))
                results.append(("d2s-a", i, method, a, repr(cq),
                                call(similarity.distance_to_similarity, D, a=a, method=method,
                                     return_params=True, cover_quantile=cq)))
                results.append(("d2s-ra", i, method, r, a, repr(cq),
                                call(similarity.distance_to_similarity, D, r=r, a=a, method=method,
                                     return_params=bool(rng.integers(0, 2)), cover_quantile=cq)))
            # re-apply with the reported parameter
            try:
                S, r_used = similarity.distance_to_similarity(D, method=method, return_params=True,
                                                              cover_quantile=0.8)
                results.append(("d2s-re", i, method, enc(r_used),
                                call(similarity.distance_to_similarity, D, r=r_used, method=method)))
            except Exception as exc:
                results.append(("d2s-re", i, method, "exc", type(exc).__name__))
    results.append(("d2s-nonstr", call(similarity.distance_to_similarity, inputs[0], method=None)))

    sq_methods = ['logistic', 'gaussian', 'exponential', 'Logistic', 'reverse', '']
    sq_cqs = [False, 0.25, 0.5, 0.9, (0.5, 0.3), [0.75, 0.1], (0.9, 0.9), 0.0, 1.0]
    for i, X in enumerate(inputs + signed):
        for method in sq_methods:
            for cq in sq_cqs:
                for ks in (False, True):
                    for base in (None, 2, 10.0):
                        results.append(("sq", i, method, repr(cq), ks, base,
                                        call(similarity.squash, X, method=method, base=base,
                                             return_params=True, keep_sign=ks, cover_quantile=cq)))
            for _ in range(4):
                r = float(rng.choice([0.1, 0.5, 1.0, 2.0, 10.0])) * float(rng.random() + 0.5)
                x0 = float(rng.choice([0.0, 0.5, 3.0, 20.0])) * float(rng.random() + 0.5)
                base = [None, 2, 3.5, np.e][int(rng.integers(0, 4))]
                ks = bool(rng.integers(0, 2))
                cq = sq_cqs[int(rng.integers(0, len(sq_cqs)))]
                results.append(("sq-r", i, method, r, ks, repr(base),
                                call(similarity.squash, X, r, base, None, method, True, ks, cq)))
                results.append(("sq-x0", i, method, x0, ks, repr(base), repr(cq),
                                call(similarity.squash, X, x0=x0, base=base, method=method,
                                     return_params=True, keep_sign=ks, cover_quantile=cq)))
                results.append(("sq-rx0", i, method, r, x0, ks, repr(base),
                                call(similarity.squash, X, r=r, x0=x0, base=base, method=method,
                                     return_params=bool(rng.integers(0, 2)), keep_sign=ks)))
            try:
                Y, r_used, x0_used = similarity.squash(X, method=method, return_params=True,
                                                       cover_quantile=(0.8, 0.7))
                results.append(("sq-re", i, method, enc(r_used), enc(x0_used),
                                call(similarity.squash, X, r=r_used, x0=x0_used, method=method)))
            except Exception as exc:
                results.append(("sq-re", i, method, "exc", type(exc).__name__))

    digest = hashlib.sha256(repr(results).encode("utf-8")).hexdigest()
    print("NRESULTS", len(results))
    print("DIGEST", digest)


if __name__ == "__main__":
    main()
