#!/usr/bin/env python
"""Randomised comparison for the hierarchical clustering routines (property C15).

Calls Hierarchical.fit, HierarchicalTree.fit/.linkage and LinkageTree.fit/.linkage
through the public API on seeded random inputs and prints a digest of everything
that can be observed: returned clusters, the sequence of merge_hook calls, linkage
lists, weights mutated by the hooks, hook attributes left on the model, to_dot().
"""
import sys
import hashlib
import random
import logging

import numpy as np

from dtaidistance import dtw
from dtaidistance.clustering import hierarchical
from dtaidistance.clustering.hierarchical import (Hierarchical, HierarchicalTree,
                                                   LinkageTree, Hooks)

logging.disable(logging.CRITICAL)

RESULTS = []


def fl(x):
    """Exact representation of a float-like value."""
    x = float(x)
    return x.hex() if x == x else 'nan'


def norm_clusters(c):
    return [(int(k), sorted(int(v) for v in vs)) for k, vs in c.items()]


def norm_linkage(l):
    if l is None:
        return None
    return [tuple(fl(v) for v in row) for row in l]


def rec(tag, value):
    RESULTS.append((tag, value))


def make_series(rng, n, kind):
    """Random series collections; ties and duplicates on purpose."""
    if kind == 0:      # equal length floats -> 2-D numpy array
        length = rng.randint(2, 9)
        return np.array([[rng.uniform(-3, 3) for _ in range(length)] for _ in range(n)])
    if kind == 1:      # small integers, many ties, equal length
        length = rng.randint(2, 6)
        return np.array([[float(rng.randint(0, 2)) for _ in range(length)] for _ in range(n)])
    if kind == 2:      # list of arrays of different length
        return [np.array([rng.uniform(-2, 2) for _ in range(rng.randint(2, 10))]) for _ in range(n)]
    if kind == 3:      # duplicates: pick from a small pool
        length = rng.randint(2, 7)
        pool = [[float(rng.randint(-2, 2)) for _ in range(length)] for _ in range(max(1, n // 2))]
        return np.array([list(rng.choice(pool)) for _ in range(n)])
    if kind == 4:      # different lengths + integer values (ties and duplicates)
        return [np.array([float(rng.randint(0, 1)) for _ in range(rng.randint(1, 5))]) for _ in range(n)]
    raise ValueError(kind)


def make_dists_options(rng):
    opts = {}
    r = rng.random()
    if r < 0.25:
        opts['window'] = rng.randint(1, 4)
    r = rng.random()
    if r < 0.2:
        opts['max_dist'] = rng.choice([0.5, 1.0, 2.0, 3.5])   # yields inf entries
    r = rng.random()
    if r < 0.2:
        opts['max_length_diff'] = rng.choice([0, 1, 2, 3])     # yields inf entries
    r = rng.random()
    if r < 0.15:
        opts['penalty'] = rng.choice([0.1, 1.0])
    r = rng.random()
    if r < 0.1:
        opts['psi'] = rng.choice([1, 2])
    return opts


def random_matrix_fun(rng_seed, mode):
    """A synthetic distance-matrix function (ties / inf / duplicates by construction)."""
    def fun(series, only_triu=False, **kwargs):
        r = random.Random(rng_seed)
        n = len(series)
        m = np.full((n, n), np.inf)
        for a in range(n):
            for b in range(a + 1, n):
                if mode == 0:
                    v = float(r.randint(0, 3))
                elif mode == 1:
                    v = r.choice([0.0, 1.0, 2.5, float('inf')])
                elif mode == 2:
                    v = r.uniform(0, 5)
                else:
                    v = float('inf') if r.random() < 0.5 else float(r.randint(1, 2))
                m[a, b] = v
        if not only_triu:
            for a in range(n):
                m[a, a] = 0
                for b in range(a + 1, n):
                    m[b, a] = m[a, b]
        return m
    return fun


class HookLog:
    def __init__(self, inner=None):
        self.calls = []
        self.inner = inner

    def __call__(self, i_from, i_to, d):
        self.calls.append((int(i_from), int(i_to), fl(d)))
        if self.inner is not None:
            res = self.inner(i_from, i_to, d)
            self.calls.append(('->', None if res is None else (int(res[0]), int(res[1]))))
            return res
        return None


class OrderLog:
    def __init__(self, inner):
        self.calls = []
        self.inner = inner

    def __call__(self, idxs):
        self.calls.append([tuple(int(v) for v in row) for row in idxs])
        res = self.inner(idxs)
        self.calls.append(('->', repr(res if isinstance(res, int) else tuple(int(v) for v in res))))
        return res


def last_order(idxs):
    return idxs[-1, :]


def dists_fun_variants(rng, case):
    out = [('py', dtw.distance_matrix), ('c', dtw.distance_matrix_fast),
           ('func_py', dtw.distance_matrix_func(use_c=False)),
           ('func_c', dtw.distance_matrix_func(use_c=True))]
    return out


def for_engine(name, series, case):
    """2-D matrices into the C path raise a pre-existing unrelated error; mostly avoid it."""
    if name in ('c', 'func_c') and isinstance(series, np.ndarray) and case % 7 != 0:
        return [np.array(row) for row in series]
    return series


def guarded(tag, f):
    try:
        return f()
    except Exception as exc:  # exceptions are observable results too
        return ('EXC', type(exc).__name__, str(exc))


def run_hierarchical(rng, case):
    n = rng.randint(2, 12)
    kind = rng.randint(0, 4)
    series = make_series(rng, n, kind)
    opts = make_dists_options(rng)
    max_dist = rng.choice([float('inf'), 0.0, 0.5, 1.0, 1.5, 2.0, 3.0, 5.0, 100.0])
    hookmode = rng.randint(0, 5)
    series_in = series
    for name, fun in dists_fun_variants(rng, case):
        series = for_engine(name, series_in, case)
        o = dict(opts)
        weights = [rng.randint(1, 3) for _ in range(n)] if hookmode in (1, 2, 3) else None
        wcopy = None if weights is None else list(weights)
        merge_hook = None
        order_hook = None
        if hookmode == 1:
            merge_hook = HookLog(Hooks.create_weighthook(wcopy, series))
            order_hook = OrderLog(Hooks.create_orderhook(wcopy))
        elif hookmode == 2:
            merge_hook = HookLog(Hooks.create_weighthook(wcopy, series))
        elif hookmode == 3:
            order_hook = OrderLog(Hooks.create_orderhook(wcopy))
        elif hookmode == 4:
            merge_hook = HookLog()
        elif hookmode == 5:
            merge_hook = HookLog()
            order_hook = OrderLog(last_order)
        model = Hierarchical(fun, o, max_dist=max_dist, merge_hook=merge_hook,
                             order_hook=order_hook, show_progress=(case % 17 == 0))
        for rep in range(3):   # repeated fit calls on the same model object
            res = guarded('fit', lambda: norm_clusters(model.fit(series)))
            rec(('H', case, name, rep), (
                n, kind, sorted(o.items()), fl(max_dist), hookmode, res,
                None if merge_hook is None else list(merge_hook.calls),
                None if order_hook is None else list(order_hook.calls),
                None if wcopy is None else list(wcopy),
                sorted((k, repr(v)) for k, v in model.dists_options.items()),
                model.merge_hook is merge_hook, model.order_hook is order_hook))


def run_hierarchical_synth(rng, case):
    n = rng.randint(2, 10)
    series = make_series(rng, n, rng.choice([0, 2]))
    mode = rng.randint(0, 3)
    fun = random_matrix_fun(rng.randint(0, 10 ** 6), mode)
    max_dist = rng.choice([float('inf'), 0.0, 1.0, 2.0, 2.5, 4.0])
    log = HookLog()
    use_order = rng.random() < 0.4
    order_hook = OrderLog(last_order) if use_order else None
    model = Hierarchical(fun, {}, max_dist=max_dist, merge_hook=log, order_hook=order_hook,
                         show_progress=False)
    for rep in range(2):
        res = guarded('fit', lambda: norm_clusters(model.fit(series)))
        rec(('HS', case, rep), (n, mode, fl(max_dist), res, list(log.calls),
                                None if order_hook is None else list(order_hook.calls)))
    # tree on top of a synthetic matrix
    log2 = HookLog()
    tree = HierarchicalTree(dists_fun=fun, dists_options={}, max_dist=max_dist,
                            merge_hook=log2 if rng.random() < 0.7 else None,
                            order_hook=OrderLog(last_order) if use_order else None,
                            show_progress=False)
    for rep in range(2):
        res = guarded('fit', lambda: norm_clusters(tree.fit(series)))
        dot = guarded('dot', tree.to_dot) if tree.linkage and len(tree.linkage) == n - 1 else None
        rec(('HST', case, rep), (res, norm_linkage(tree.linkage), list(log2.calls),
                                 fl(tree._model.max_dist), dot,
                                 tree._model.merge_hook is None or tree._model.merge_hook is log2,
                                 guarded('maxnode', lambda: tree.maxnode)))


def run_tree(rng, case):
    n = rng.randint(2, 11)
    kind = rng.randint(0, 4)
    series = make_series(rng, n, kind)
    opts = make_dists_options(rng)
    hookmode = rng.randint(0, 4)
    series_in = series
    for name, fun in dists_fun_variants(rng, case):
        series = for_engine(name, series_in, case)
        wcopy = [rng.randint(1, 3) for _ in range(n)] if hookmode in (1, 2) else None
        merge_hook = None
        order_hook = None
        if hookmode == 1:
            merge_hook = HookLog(Hooks.create_weighthook(wcopy, series))
            order_hook = OrderLog(Hooks.create_orderhook(wcopy))
        elif hookmode == 2:
            order_hook = OrderLog(Hooks.create_orderhook(wcopy))
        elif hookmode == 3:
            merge_hook = HookLog()
        elif hookmode == 4:
            merge_hook = 0   # falsy, not None
        max_dist = rng.choice([float('inf'), 1.0, 3.0])
        if rng.random() < 0.5:
            model = Hierarchical(fun, dict(opts), max_dist=max_dist, merge_hook=merge_hook,
                                 order_hook=order_hook, show_progress=False)
            tree = HierarchicalTree(model)
        else:
            model = None
            tree = HierarchicalTree(dists_fun=fun, dists_options=dict(opts), max_dist=max_dist,
                                    merge_hook=merge_hook, order_hook=order_hook,
                                    show_progress=False)
        for rep in range(3):
            res = guarded('fit', lambda: norm_clusters(tree.fit(series)))
            link = norm_linkage(tree.linkage)
            dot = guarded('dot', tree.to_dot) if tree.linkage and len(tree.linkage) == n - 1 else None
            rec(('T', case, name, rep), (
                n, kind, sorted(opts.items()), hookmode, res, link,
                list(merge_hook.calls) if isinstance(merge_hook, HookLog) else repr(merge_hook),
                None if order_hook is None else list(order_hook.calls),
                None if wcopy is None else list(wcopy),
                (tree._model.merge_hook if tree._model.merge_hook in (None, 0) else 'other')
                if not isinstance(tree._model.merge_hook, HookLog)
                else (tree._model.merge_hook is merge_hook),
                type(tree._model.merge_hook).__name__,
                fl(tree._model.max_dist), dot, guarded('maxnode', lambda: tree.maxnode),
                guarded('gl', lambda: repr(tree.get_linkage(n))),
                len(tree.series)))


def run_linkage(rng, case):
    n = rng.randint(2, 12)
    kind = rng.randint(0, 4)
    series = make_series(rng, n, kind)
    opts = make_dists_options(rng)
    opts.pop('max_dist', None)          # scipy rejects non-finite condensed matrices
    opts.pop('max_length_diff', None)
    method = rng.choice(['complete', 'single', 'average', 'ward', 'weighted', 'centroid', 'median'])
    series_in = series
    for name, fun in dists_fun_variants(rng, case):
        series = for_engine(name, series_in, case)
        model = LinkageTree(fun, dict(opts), method=method) if opts or rng.random() < 0.5 \
            else LinkageTree(fun, None, method=method)
        for rep in range(2):
            res = guarded('fit', lambda: norm_linkage(model.fit(series)))
            same = res == norm_linkage(model.linkage) if not (isinstance(res, tuple) and res[:1] == ('EXC',)) else None
            rec(('L', case, name, rep), (n, kind, sorted(opts.items()), method, res, same,
                                         guarded('dot', model.to_dot) if same else None,
                                         sorted(model.dists_options.items()),
                                         model._size_cond(n), len(model.series)))
    # inf entries handed to scipy: whatever happens must happen identically
    if case % 5 == 0:
        fun = random_matrix_fun(rng.randint(0, 10 ** 6), rng.choice([0, 2]))
        model = LinkageTree(fun, {}, method=method)
        res = guarded('fit', lambda: norm_linkage(model.fit(series)))
        rec(('LS', case), (n, method, res))


def main():
    rng = random.Random(15015)
    for case in range(120):
        run_hierarchical(rng, case)
    for case in range(150):
        run_hierarchical_synth(rng, case)
    for case in range(100):
        run_tree(rng, case)
    for case in range(80):
        run_linkage(rng, case)
    # a few fixed corner cases
    two = [np.array([0., 1, 2]), np.array([0., 1, 2])]
    for fun in (dtw.distance_matrix, dtw.distance_matrix_fast):
        for md in (float('inf'), 0.0, -1.0):
            log = HookLog()
            m = Hierarchical(fun, {}, max_dist=md, merge_hook=log, show_progress=False)
            rec(('two', fl(md)), (norm_clusters(m.fit(two)), list(log.calls)))
        t = HierarchicalTree(dists_fun=fun, dists_options={}, show_progress=False)
        rec('two-tree', (norm_clusters(t.fit(two)), norm_linkage(t.linkage), t.to_dot()))
        l = LinkageTree(fun, {})
        rec('two-link', (norm_linkage(l.fit(two)), l.to_dot()))
    one = [np.array([0., 1, 2])]
    m = Hierarchical(dtw.distance_matrix, {}, show_progress=False)
    rec('one', guarded('fit', lambda: norm_clusters(m.fit(one))))

    digest = hashlib.sha256(repr(RESULTS).encode('utf-8')).hexdigest()
    print('NRESULTS', len(RESULTS), file=sys.stderr)
    print('DIGEST', digest)
    return 0


if __name__ == '__main__':
    sys.exit(main())
