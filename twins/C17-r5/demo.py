"""Randomised bit-for-bit comparison for the Needleman-Wunsch / generic DP routines.

Calls alignment.needleman_wunsch, alignment.best_alignment,
alignment.make_substitution_fn and dp.dp through the public API on seeded
random inputs and prints one line `DIGEST <sha256>`.
"""
import hashlib
import itertools
import random
import sys

import numpy as np

from dtaidistance import alignment
from dtaidistance.dp import dp, Direction


def enc(x):
    """Exact, repr-able encoding of a result."""
    if x is None:
        return None
    if isinstance(x, np.ndarray):
        if x.dtype.kind == 'U':
            return ('arrU', x.shape, str(x.dtype), x.tolist())
        return ('arr', x.shape, str(x.dtype), x.tobytes().hex())
    if isinstance(x, (np.floating, float)):
        return ('f', type(x).__name__, float(x).hex())
    if isinstance(x, (np.integer,)):
        return ('i', type(x).__name__, int(x))
    if isinstance(x, (list, tuple)):
        return (type(x).__name__, [enc(v) for v in x])
    return x


def call(fn, *args, **kwargs):
    try:
        return enc(fn(*args, **kwargs))
    except Exception as exc:  # record the failure mode as well
        return ('EXC', type(exc).__name__, str(exc))


def rand_seq(rng, alphabet, n, as_list):
    s = [rng.choice(alphabet) for _ in range(n)]
    if as_list:
        return s
    return ''.join(s)


def rand_matrix(rng, alphabet, integer):
    m = {}
    for a in alphabet:
        for b in alphabet:
            if rng.random() < 0.5:
                if integer:
                    m[(a, b)] = rng.randint(-3, 4)
                else:
                    m[(a, b)] = rng.choice([-2.5, -1.0, -0.5, 0.0, 0.25, 0.5, 1.0, 1.5, 3.0])
    return m


ORDERS = [None] + [list(p) for p in itertools.permutations([0, 1, 2])] + [[0], [1, 2], [2, 0]]


def align_all(results, tag, paths, s1, s2, rng):
    if paths is None:
        results.append((tag, 'nopaths'))
        return
    for order in ORDERS:
        results.append((tag, 'ba', order, call(alignment.best_alignment, paths, s1, s2, '-', order)))
    # optional arguments left out / other gap symbol
    results.append((tag, 'ba-none', call(alignment.best_alignment, paths)))
    results.append((tag, 'ba-s1', call(alignment.best_alignment, paths, s1, None, gap='*')))
    results.append((tag, 'ba-s2', call(alignment.best_alignment, paths, None, s2, gap=None,
                                       order=rng.choice(ORDERS))))


def main():
    rng = random.Random(20260929)
    results = []

    # 1. exhaustive small block: all pairs over {A,B} up to length 3, default scoring
    alpha2 = 'AB'
    seqs = ['']
    for n in range(1, 4):
        seqs += [''.join(t) for t in itertools.product(alpha2, repeat=n)]
    for s1 in seqs:
        for s2 in seqs:
            r = None
            try:
                r = alignment.needleman_wunsch(s1, s2)
                results.append(('ex', s1, s2, enc(r)))
            except Exception as exc:
                results.append(('ex', s1, s2, 'EXC', type(exc).__name__, str(exc)))
            if r is not None:
                align_all(results, ('ex', s1, s2), r[2], s1, s2, rng)

    # 2. random block: needleman_wunsch with all option combinations
    for it in range(700):
        alphabet = rng.choice(['AB', 'ACG', 'ACGT', 'GATCU'])
        as_list = rng.random() < 0.3
        n1 = rng.randint(0, 9)
        n2 = rng.randint(0, 9)
        s1 = rand_seq(rng, alphabet, n1, as_list)
        s2 = rand_seq(rng, alphabet, n2, as_list)
        kind = rng.choice(['default', 'default', 'dict-max', 'dict-min', 'gap-only', 'dict-int'])
        if kind == 'default':
            subst = None
        elif kind == 'dict-max':
            subst = alignment.make_substitution_fn(rand_matrix(rng, alphabet, False),
                                                   gap=rng.choice([0.5, 1, 1.5, 2, 0.25]), opt='max')
        elif kind == 'dict-min':
            subst = alignment.make_substitution_fn(rand_matrix(rng, alphabet, False),
                                                   gap=rng.choice([0.5, 1, 1.5, 2]), opt='min')
        elif kind == 'gap-only':
            subst = alignment.make_substitution_fn({}, gap=rng.choice([0.5, 0.75, 2, 3]))
        else:
            subst = alignment.make_substitution_fn(rand_matrix(rng, alphabet, True),
                                                   gap=rng.choice([1, 2, 3]),
                                                   opt=rng.choice(['max', 'min', 'other']))
        kwargs = {}
        if rng.random() < 0.35:
            kwargs['window'] = rng.randint(1, 10)
        if rng.random() < 0.25:
            kwargs['max_dist'] = rng.choice([0, 1, 2, 3, 4.5, 6])
        if rng.random() < 0.25:
            kwargs['max_step'] = rng.choice([0, 0.5, 1, 1.5, 2])
        if rng.random() < 0.2:
            kwargs['max_length_diff'] = rng.randint(0, 4)
        if rng.random() < 0.2:
            kwargs['psi'] = rng.randint(0, 3)
        tag = ('rnd', it, repr(s1), repr(s2), kind, sorted(kwargs.items()))
        if subst is not None:
            # the substitution function itself, on every symbol pair (both orientations)
            results.append((tag, 'gap', enc(getattr(subst, 'gap', None))))
            for a in alphabet + 'Z':
                for b in alphabet + 'Z':
                    results.append((tag, 'sub', a, b, call(subst, a, b)))
        r = None
        try:
            r = alignment.needleman_wunsch(s1, s2, substitution=subst, **kwargs)
            results.append((tag, enc(r)))
        except Exception as exc:
            results.append((tag, 'EXC', type(exc).__name__, str(exc)))
        if r is not None:
            align_all(results, tag, r[2], s1, s2, rng)

    # 3. the default substitution function and the border function
    for a in 'ACGT':
        for b in 'ACGT':
            results.append(('dflt', a, b, call(alignment._default_substitution_fn, a, b)))
    for v1, v2 in [(1, 1), (1, 1.0), (1, 2), (None, None), ((1, 2), (1, 2)), ('a', 1)]:
        results.append(('dflt2', repr(v1), repr(v2), call(alignment._default_substitution_fn, v1, v2)))
    for ri in range(5):
        for ci in range(5):
            results.append(('border', ri, ci, call(alignment._needleman_wunsch_border, ri, ci)))

    # 4. dp() directly, numeric sequences, DTW-like and edit-like cost functions
    def fn_sq(a, b):
        return (a - b) ** 2, 0.5

    def fn_abs(a, b):
        return abs(a - b), abs(a - b)

    def fn_int(a, b):
        return (0 if a == b else 2), 1

    fns = {'sq': fn_sq, 'abs': fn_abs, 'int': fn_int}
    borders = {
        'none': None,
        'nw': alignment._needleman_wunsch_border,
        'half': lambda ri, ci: 0.5 * (ri + ci),
    }
    for it in range(500):
        n1 = rng.randint(0, 8)
        n2 = rng.randint(0, 8)
        if rng.random() < 0.5:
            s1 = [rng.randint(0, 4) for _ in range(n1)]
            s2 = [rng.randint(0, 4) for _ in range(n2)]
        else:
            s1 = [round(rng.uniform(-2, 2), 2) for _ in range(n1)]
            s2 = [round(rng.uniform(-2, 2), 2) for _ in range(n2)]
        fname = rng.choice(sorted(fns))
        bname = rng.choice(sorted(borders))
        kwargs = {}
        if rng.random() < 0.4:
            kwargs['window'] = rng.randint(1, 9)
        if rng.random() < 0.3:
            kwargs['max_dist'] = rng.choice([0, 0.5, 1, 2, 4, 8])
        if rng.random() < 0.3:
            kwargs['max_step'] = rng.choice([0, 0.25, 1, 2, 4])
        if rng.random() < 0.25:
            kwargs['max_length_diff'] = rng.randint(0, 4)
        if rng.random() < 0.3:
            kwargs['penalty'] = rng.choice([0, 0.1, 1, None])
        if rng.random() < 0.35:
            kwargs['psi'] = rng.randint(0, 3)
        tag = ('dp', it, s1, s2, fname, bname, sorted(kwargs.items(), key=repr))
        r = None
        try:
            r = dp(s1, s2, fns[fname], border=borders[bname], **kwargs)
            results.append((tag, enc(r)))
        except Exception as exc:
            results.append((tag, 'EXC', type(exc).__name__, str(exc)))
        if r is not None and r[2] is not None and it % 3 == 0:
            align_all(results, tag, r[2], s1, s2, rng)

    # 5. the documented example
    v, m, p = alignment.needleman_wunsch("GATTACA", "GCATGCU")
    results.append(('doc', enc(v), enc(m), enc(p)))
    for order in ORDERS:
        results.append(('doc', order, call(alignment.best_alignment, p, "GATTACA", "GCATGCU", order=order)))
    results.append(('dirs', [(d.name, d.value) for d in Direction]))

    blob = repr(results).encode('utf-8')
    print('NRESULTS', len(results), file=sys.stderr)
    print('NEXC', sum(1 for r in results if 'EXC' in repr(r)), file=sys.stderr)
    print('DIGEST ' + hashlib.sha256(blob).hexdigest())
    return 0


if __name__ == '__main__':
    sys.exit(main())
