#!/usr/bin/env python
"""Randomised bit-for-bit comparison for property C04 (accumulated-cost matrix).

Calls the warping-paths routines of dtaidistance through the public API on seeded
random inputs and option combinations:
  - dtw.warping_paths (pure Python), dtw.warping_paths(use_c=True)
  - dtw.warping_paths_fast(compact=False / compact=True), 1-d and n-d series
  - dtw_cc.wps_expand_slice on the compact matrix (full expansion and random slices)
  - dtw_cc.DTWWps region boundaries, dtw_cc.wps_width / wps_length
  - dtw.distance / dtw.distance_fast for the same settings
  - dtw.warping_paths_affinity (Python) / warping_paths_affinity_fast (full, compact)
and prints a sha256 digest over the repr of every result (float arrays are
hashed through their raw bytes, so the comparison is bit-for-bit).
"""
import hashlib
import os
import random
import sys

import numpy as np

from dtaidistance import dtw, dtw_ndim, dtw_cc
from dtaidistance import innerdistance  # noqa: F401

H = hashlib.sha256()
NREC = 0


def rec(tag, *vals):
    global NREC
    parts = [tag]
    for v in vals:
        if isinstance(v, np.ndarray):
            a = np.ascontiguousarray(v, dtype=np.double)
            parts.append(("arr", a.shape, a.tobytes().hex()))
        elif isinstance(v, float):
            parts.append(("f", np.double(v).tobytes().hex()))
        elif v is None:
            parts.append("None")
        else:
            parts.append(repr(v))
    H.update(repr(parts).encode("utf8"))
    NREC += 1


def rand_series(rng, n, ndim=None, kind=0):
    if ndim is None:
        shape = (n,)
    else:
        shape = (n, ndim)
    if kind == 0:
        a = rng.standard_normal(shape)
    elif kind == 1:
        a = rng.integers(-3, 4, size=shape).astype(np.double)
    else:
        a = np.cumsum(rng.standard_normal(shape), axis=0)
    return np.ascontiguousarray(a, dtype=np.double)


def rand_settings(pr, l1, l2):
    kw = {}
    m = max(l1, l2)
    wsel = pr.random()
    if wsel < 0.15:
        pass
    elif wsel < 0.25:
        kw["window"] = None
    else:
        kw["window"] = pr.randint(1, m + 2)
    if pr.random() < 0.5:
        kw["penalty"] = pr.choice([0.0, 0.1, 0.5, 1.0, 2.5])
    psel = pr.random()
    if psel < 0.3:
        kw["psi"] = pr.randint(0, min(l1, l2))
    elif psel < 0.5:
        kw["psi"] = tuple(pr.randint(0, min(l1, l2)) for _ in range(4))
    if pr.random() < 0.35:
        kw["max_step"] = pr.choice([0.5, 1.0, 2.0, 4.0])
    if pr.random() < 0.35:
        kw["max_dist"] = pr.choice([0.5, 1.5, 3.0, 6.0, 12.0])
    if pr.random() < 0.5:
        kw["inner_dist"] = pr.choice(["squared euclidean", "euclidean"])
    if pr.random() < 0.15:
        kw["use_pruning"] = True
    return kw


def c_settings_of(s1, s2, kw):
    s = dtw.DTWSettings.for_dtw(s1, s2, **kw)
    return s, dtw_cc.DTWSettings(**s.c_kwargs())


def run_case(case_id, pr, rng, ndim):
    l1 = pr.randint(1, 14)
    l2 = pr.randint(1, 14)
    if pr.random() < 0.2:
        l2 = l1
    kind = pr.randint(0, 2)
    s1 = rand_series(rng, l1, ndim, kind)
    s2 = rand_series(rng, l2, ndim, kind)
    kw = rand_settings(pr, l1, l2)
    if ndim is not None:
        kw["use_ndim"] = True
    psi_neg = pr.random() < 0.5
    keep = pr.random() < 0.5
    rec("case", case_id, l1, l2, ndim, sorted(kw.items()), psi_neg, keep)

    s, cs = c_settings_of(s1, s2, kw)
    ckw = s.c_kwargs()
    rec("width", dtw_cc.wps_width(l1, l2, **ckw), dtw_cc.wps_length(l1, l2, **ckw))
    parts = dtw_cc.DTWWps(l1, l2, cs)
    rec("parts", parts.ri1, parts.ri2, parts.ri3)

    # Python implementation (all four flag combinations for the first engine)
    for pn in (False, True):
        for ki in (False, True):
            d, m = dtw.warping_paths(s1, s2, psi_neg=pn, keep_int_repr=ki, use_c=False, **kw)
            rec("py", pn, ki, float(d), m)
    # distance-only routines
    try:
        if ndim is None:
            dd = dtw.distance(s1, s2, **kw)
            dc = dtw.distance_fast(s1, s2, **{k: v for k, v in kw.items()})
        else:
            kwn = {k: v for k, v in kw.items() if k != "use_ndim"}
            dd = dtw_ndim.distance(s1, s2, **kwn)
            dc = dtw_ndim.distance_fast(s1, s2, **kwn)
        rec("dist", float(dd), float(dc))
    except Exception as exc:  # pragma: no cover
        rec("dist-exc", type(exc).__name__, str(exc))

    # C implementation, full matrix (through both entry points)
    d1, m1 = dtw.warping_paths(s1, s2, psi_neg=psi_neg, keep_int_repr=keep, use_c=True, **kw)
    rec("c-full-a", float(d1), m1)
    for pn in (False, True):
        for ki in (False, True):
            d2, m2 = dtw.warping_paths_fast(s1, s2, psi_neg=pn, keep_int_repr=ki, compact=False, **kw)
            rec("c-full-b", pn, ki, float(d2), m2)

    # C implementation, compact matrix + expansion
    for pn, ki in ((psi_neg, keep), (not psi_neg, not keep)):
        d3, mc = dtw.warping_paths_fast(s1, s2, psi_neg=pn, keep_int_repr=ki, compact=True, **kw)
        rec("c-compact", pn, ki, float(d3), mc)
        full = np.full((l1 + 1, l2 + 1), 7.25, dtype=np.double)
        dtw_cc.wps_expand_slice(mc, full, l1, l2, 0, l1 + 1, 0, l2 + 1, cs)
        rec("c-expand", full)
        for k in range(4):
            # Slices start at row 0 and either span all columns or start at a
            # column >= 2: other slices make the (unmodified) library write
            # outside the slice buffer, which would make the run undefined.
            rb = 0
            re = pr.randint(2, l1 + 1)
            if k % 2 == 0 or l2 < 2:
                cb, ce = 0, l2 + 1
            else:
                cb = pr.randint(2, l2)
                ce = pr.randint(cb + 1, l2 + 1)
            sl = np.full((re - rb, ce - cb), 7.25, dtype=np.double)
            dtw_cc.wps_expand_slice(mc, sl, l1, l2, rb, re, cb, ce, cs)
            rec("c-slice", rb, re, cb, ce, sl)

    # direct calls into the Cython wrappers with a caller-provided matrix
    if ndim is None:
        buf = np.full((l1 + 1, l2 + 1), np.inf)
        d4 = dtw_cc.warping_paths(buf, s1, s2, psi_neg, keep, **ckw)
        rec("cc-wp", float(d4), buf)
        w = dtw_cc.wps_width(l1, l2, **ckw)
        buf = np.full((l1 + 1, w), np.inf)
        d5 = dtw_cc.warping_paths_compact(buf, s1, s2, psi_neg, keep, **ckw)
        rec("cc-wpc", float(d5), buf)
    else:
        buf = np.full((l1 + 1, l2 + 1), np.inf)
        d4 = dtw_cc.warping_paths_ndim(buf, s1, s2, psi_neg, keep, **ckw)
        rec("cc-wpn", float(d4), buf)
        w = dtw_cc.wps_width(l1, l2, **ckw)
        buf = np.full((l1 + 1, w), np.inf)
        d5 = dtw_cc.warping_paths_compact_ndim(buf, s1, s2, psi_neg, keep, **ckw)
        rec("cc-wpcn", float(d5), buf)


def run_affinity(case_id, pr, rng):
    l1 = pr.randint(1, 12)
    l2 = pr.randint(1, 12)
    only_triu = pr.random() < 0.3
    s1 = rand_series(rng, l1, None, pr.randint(0, 2))
    s2 = rand_series(rng, l2, None, pr.randint(0, 2))
    kw = {}
    if pr.random() < 0.7:
        kw["window"] = pr.randint(1, max(l1, l2) + 1)
    kw["penalty"] = pr.choice([0, 0.1, 0.5, 1.0])
    if pr.random() < 0.4:
        kw["psi"] = pr.randint(0, min(l1, l2))
    aff = dict(gamma=pr.choice([0.5, 1, 2.0]), tau=pr.choice([0, 0.2, 0.5]),
               delta=pr.choice([0, -0.1, -0.5]), delta_factor=pr.choice([1, 0.9, 0.5]))
    psi_neg = pr.random() < 0.5
    rec("aff-case", case_id, l1, l2, only_triu, sorted(kw.items()), sorted(aff.items()), psi_neg)
    d, m = dtw.warping_paths_affinity(s1, s2, only_triu=only_triu, psi_neg=psi_neg, use_c=False, **kw, **aff)
    rec("aff-py", float(d), m)
    d, m = dtw.warping_paths_affinity_fast(s1, s2, only_triu=only_triu, psi_neg=psi_neg, compact=False, **kw, **aff)
    rec("aff-c", float(d), m)
    d, mc = dtw.warping_paths_affinity_fast(s1, s2, only_triu=only_triu, psi_neg=psi_neg, compact=True, **kw, **aff)
    rec("aff-cc", float(d), mc)
    s, cs = c_settings_of(s1, s2, kw)
    full = np.full((l1 + 1, l2 + 1), 7.25, dtype=np.double)
    dtw_cc.wps_expand_slice(mc, full, l1, l2, 0, l1 + 1, 0, l2 + 1, cs)
    rec("aff-expand", full)


def main():
    pr = random.Random(20240404)
    rng = np.random.default_rng(40404)
    scale = float(os.environ.get("DEMO_SCALE", "1"))
    for k in range(int(700 * scale)):
        run_case(k, pr, rng, None)
    for k in range(int(250 * scale)):
        run_case(10000 + k, pr, rng, pr.choice([1, 2, 3]))
    for k in range(int(200 * scale)):
        run_affinity(20000 + k, pr, rng)
    # a few fixed corner cases: band leaves the left edge / very different lengths
    fixed = [(1, 1, 1), (1, 9, 1), (9, 1, 1), (12, 5, 2), (5, 12, 2), (13, 13, 1),
             (13, 13, 3), (14, 7, 3), (7, 14, 3), (14, 10, 1), (10, 14, 1), (20, 20, 2),
             (25, 18, 4), (18, 25, 4)]
    for (l1, l2, w) in fixed:
        s1 = rand_series(rng, l1)
        s2 = rand_series(rng, l2)
        for psi in (0, 2):
            kw = {"window": w, "psi": min(psi, l1, l2)}
            s, cs = c_settings_of(s1, s2, kw)
            d, m = dtw.warping_paths(s1, s2, **kw)
            rec("fx-py", l1, l2, w, psi, float(d), m)
            d, m = dtw.warping_paths_fast(s1, s2, **kw)
            rec("fx-c", float(d), m)
            d, mc = dtw.warping_paths_fast(s1, s2, compact=True, **kw)
            rec("fx-cc", float(d), mc)
            full = np.full((l1 + 1, l2 + 1), 7.25)
            dtw_cc.wps_expand_slice(mc, full, l1, l2, 0, l1 + 1, 0, l2 + 1, cs)
            rec("fx-exp", full)
            p = dtw_cc.DTWWps(l1, l2, cs)
            rec("fx-parts", p.ri1, p.ri2, p.ri3)
    # exhaustive sweep of the compact-layout description (dtw_wps_parts) and of
    # the matrices it produces for small lengths and every window
    for l1 in range(1, 17):
        for l2 in range(1, 17):
            s1 = rand_series(rng, l1, None, 1)
            s2 = rand_series(rng, l2, None, 1)
            for w in range(0, max(l1, l2) + 3):
                cs = dtw_cc.DTWSettings(window=w)
                p = dtw_cc.DTWWps(l1, l2, cs)
                rec("sw-parts", l1, l2, w, p.ri1, p.ri2, p.ri3,
                    dtw_cc.wps_width(l1, l2, window=w), dtw_cc.wps_length(l1, l2, window=w))
                if (l1 + l2 + w) % 3 == 0:
                    kw = {"window": (w if w > 0 else None), "psi": (l1 + w) % 2}
                    d, m = dtw.warping_paths_fast(s1, s2, **kw)
                    rec("sw-c", float(d), m)
                    d, mc = dtw.warping_paths_fast(s1, s2, compact=True, **kw)
                    rec("sw-cc", float(d), mc)
                    full = np.full((l1 + 1, l2 + 1), 7.25)
                    dtw_cc.wps_expand_slice(mc, full, l1, l2, 0, l1 + 1, 0, l2 + 1, cs)
                    rec("sw-exp", full)
    sys.stderr.write("records: %d\n" % NREC)
    print("DIGEST " + H.hexdigest())
    return 0


if __name__ == "__main__":
    sys.exit(main())
