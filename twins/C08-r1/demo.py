#!/usr/bin/env python3
"""Randomised comparison for the refactoring of dtw_wps_parts (dd_dtw.c).

dtw_wps_parts computes the layout of the compact warping-paths buffer
(width, length, ri1/ri2/ri3, squared penalty/max_step/max_dist).  Every user of
the compact buffer goes through it, so this script exercises through the
public API: wps_length / wps_width / DTWWps, warping_paths_compact (into a
buffer of exactly the advertised size), warping_paths (compact + expansion),
best_path_compact, warping_path(_ndim), the affinity variants, the
LocalConcurrences machinery (wps_max, negativize, positivize, expand slice),
dtw.warping_paths / dtw_ndim.warping_paths with use_c=True and DBA.

Prints one line `DIGEST <sha256>` over the repr of all results.
"""
import hashlib
import itertools
import random
import struct
import sys

import numpy as np

from dtaidistance import dtw, dtw_ndim, dtw_cc
from dtaidistance import dtw_barycenter
from dtaidistance.subsequence.localconcurrences import local_concurrences

results = []


def fl(x):
    """Exact representation of a double."""
    return struct.pack('<d', float(x)).hex()


def arr(a):
    a = np.ascontiguousarray(a, dtype=np.double)
    return (a.shape, hashlib.sha256(a.tobytes()).hexdigest())


def rnd_series(rng, n, ndim=None):
    if ndim is None:
        return np.array([rng.choice([0., 1., 2., 0.5, -1., 3.25]) if rng.random() < 0.5
                         else rng.uniform(-3, 3) for _ in range(n)], dtype=np.double)
    return np.array([[rng.uniform(-3, 3) for _ in range(ndim)] for _ in range(n)], dtype=np.double)


def options(rng, l1, l2, window):
    kw = {}
    if window is not None:
        kw['window'] = window
    r = rng.random()
    if r < 0.35:
        kw['psi'] = (rng.randint(0, l1), rng.randint(0, l1), rng.randint(0, l2), rng.randint(0, l2))
    elif r < 0.5:
        kw['psi'] = rng.randint(0, min(l1, l2))
    if rng.random() < 0.5:
        kw['penalty'] = rng.choice([0.1, 0.5, 1.0, 2.5])
    if rng.random() < 0.4:
        kw['max_step'] = rng.choice([0.5, 1.0, 2.0, 4.0])
    if rng.random() < 0.4:
        kw['max_dist'] = rng.choice([0.5, 1.5, 3.0, 10.0])
    kw['inner_dist'] = rng.choice(['squared euclidean', 'euclidean'])
    return kw


def one_config(rng, l1, l2, window):
    kw = options(rng, l1, l2, window)
    s1 = rnd_series(rng, l1)
    s2 = rnd_series(rng, l2)
    rec = [('cfg', l1, l2, sorted(kw.items()))]
    length = dtw_cc.wps_length(l1, l2, **kw)
    width = dtw_cc.wps_width(l1, l2, **kw)
    settings = dtw_cc.DTWSettings(**kw)
    parts = dtw_cc.DTWWps(l1, l2, settings)
    rec.append(('parts', length, width, parts.ri1, parts.ri2, parts.ri3))
    assert length == (l1 + 1) * width

    # compact buffer of exactly the advertised size
    for psi_neg in (False, True):
        wps = np.full((l1 + 1, width), -7.0, dtype=np.double)
        d = dtw_cc.warping_paths_compact(wps, s1, s2, psi_neg, False, **kw)
        rec.append(('wpc', psi_neg, fl(d), arr(wps)))
        if not psi_neg:
            wps_keep = wps
    # best path from the compact buffer (index arrays of length l1+l2)
    wps2 = np.full((l1 + 1, width), -7.0, dtype=np.double)
    dtw_cc.warping_paths_compact(wps2, s1, s2, True, True, **kw)
    rec.append(('bpc', dtw_cc.best_path_compact(wps2, l1, l2, **kw)))
    # full matrix (compact + expansion)
    full = np.full((l1 + 1, l2 + 1), -7.0, dtype=np.double)
    d = dtw_cc.warping_paths(full, s1, s2, False, False, **kw)
    rec.append(('wp', fl(d), arr(full)))
    # warping path wrappers
    p, d = dtw_cc.warping_path(s1, s2, include_distance=True, **kw)
    rec.append(('path', p, fl(d)))
    # distance uses its own set-up (rolling buffer) but must stay consistent.
    # The rolling-buffer kernel is only defined for psi <= window, keep to that.
    dkw = dict(kw)
    if 'psi' in dkw and window is not None:
        psi = dkw['psi'] if isinstance(dkw['psi'], tuple) else (dkw['psi'],) * 4
        dkw['psi'] = tuple(min(x, window) for x in psi)
    rec.append(('dist', fl(dtw_cc.distance(s1, s2, **dkw))))

    # ndim
    ndim = rng.choice([1, 2, 3])
    n1 = rnd_series(rng, l1, ndim)
    n2 = rnd_series(rng, l2, ndim)
    wpsn = np.full((l1 + 1, width), -7.0, dtype=np.double)
    d = dtw_cc.warping_paths_compact_ndim(wpsn, n1, n2, False, False, **kw)
    rec.append(('wpcn', ndim, fl(d), arr(wpsn)))
    fulln = np.full((l1 + 1, l2 + 1), -7.0, dtype=np.double)
    d = dtw_cc.warping_paths_ndim(fulln, n1, n2, False, False, **kw)
    rec.append(('wpn', fl(d), arr(fulln)))
    p, d = dtw_cc.warping_path_ndim(n1, n2, ndim, include_distance=True, **kw)
    rec.append(('pathn', p, fl(d)))

    # affinity variants: only window and penalty are meaningful
    akw = {k: v for k, v in kw.items() if k in ('window', 'penalty')}
    awidth = dtw_cc.wps_width(l1, l2, **akw)
    gamma, tau, delta, delta_factor = 1.0, rng.choice([0.1, 0.4]), rng.choice([-0.2, -1.0]), rng.choice([0.5, 1.0])
    # only_triu is only meaningful for (square) self-comparison matrices
    for only_triu in ((False, True) if l1 == l2 else (False,)):
        wa = np.full((l1 + 1, awidth), -7.0, dtype=np.double)
        d = dtw_cc.warping_paths_compact_affinity(wa, s1, s2, only_triu, gamma, tau, delta, delta_factor,
                                                  False, **akw)
        rec.append(('wpca', only_triu, fl(d), arr(wa)))
        fa = np.full((l1 + 1, l2 + 1), -7.0, dtype=np.double)
        d = dtw_cc.warping_paths_affinity(fa, s1, s2, only_triu, gamma, tau, delta, delta_factor,
                                          False, **akw)
        rec.append(('wpa', only_triu, fl(d), arr(fa)))
        asettings = dtw_cc.DTWSettings(**akw)
        aparts = dtw_cc.DTWWps(l1, l2, asettings)
        rec.append(('wmax', dtw_cc.wps_max(aparts, wa, l1, l2)))
    results.append(rec)


def python_level(rng):
    # dtw / dtw_ndim wrappers with the C engine
    for _ in range(250):
        l1 = rng.randint(1, 9)
        l2 = rng.randint(1, 9)
        window = rng.choice([None] + list(range(1, max(l1, l2) + 2)))
        kw = {}
        if window is not None:
            kw['window'] = window
        if rng.random() < 0.4:
            kw['psi'] = (rng.randint(0, l1), rng.randint(0, l1), rng.randint(0, l2), rng.randint(0, l2))
        if rng.random() < 0.4:
            kw['penalty'] = rng.choice([0.1, 1.0])
        if rng.random() < 0.3:
            kw['max_step'] = rng.choice([1.0, 3.0])
        if rng.random() < 0.3:
            kw['max_dist'] = rng.choice([1.5, 8.0])
        kw['inner_dist'] = rng.choice(['squared euclidean', 'euclidean'])
        s1 = rnd_series(rng, l1)
        s2 = rnd_series(rng, l2)
        rec = [('py', l1, l2, sorted(kw.items()))]
        d, m = dtw.warping_paths(s1, s2, use_c=True, **kw)
        rec.append(('dtw.wp', fl(d), arr(m)))
        for compact in (False, True):
            d, m = dtw.warping_paths_fast(s1, s2, compact=compact, **kw)
            rec.append(('dtw.wpf', compact, fl(d), arr(m)))
        rec.append(('dtw.path', dtw.warping_path_fast(s1, s2, **kw)))
        ndim = rng.choice([2, 3])
        n1 = rnd_series(rng, l1, ndim)
        n2 = rnd_series(rng, l2, ndim)
        d, m = dtw_ndim.warping_paths(n1, n2, use_c=True, **kw)
        rec.append(('ndim.wp', fl(d), arr(m)))
        results.append(rec)


def local_conc(rng):
    for it in range(60):
        l1 = rng.randint(3, 14)
        l2 = rng.randint(3, 14)
        window = rng.choice([None, None] + list(range(1, max(l1, l2) + 2)))
        s1 = rnd_series(rng, l1)
        s2 = rnd_series(rng, l2) if rng.random() < 0.7 else None
        penalty = rng.choice([None, 0.5, 1.0])
        tau = rng.choice([0.2, 0.5])
        delta = rng.choice([-0.3, -1.0])
        lc = local_concurrences(s1, s2, gamma=1, tau=tau, delta=delta, delta_factor=rng.choice([0.5, 1.0]),
                                penalty=penalty, window=window, use_c=True, compact=True)
        rec = [('lc', l1, l2, window, penalty, tau, delta)]
        rec.append(('lc.wp', arr(np.asarray(lc._wp))))
        rec.append(('lc.slice', arr(lc.wp_slice())))
        ms = []
        for m in lc.kbest_matches(k=5, minlen=1, buffer=rng.choice([0, -1, -2])):
            ms.append((m.row, m.col, [tuple(int(x) for x in pp) for pp in m.path]))
        rec.append(('lc.matches', ms))
        rec.append(('lc.wp.after', arr(np.asarray(lc._wp))))
        results.append(rec)


def dba(rng):
    for it in range(40):
        n = rng.randint(2, 5)
        L = rng.randint(1, 8)
        window = rng.choice([None] + list(range(1, L + 2)))
        series = np.array([[rng.uniform(-2, 2) for _ in range(L)] for _ in range(n)], dtype=np.double)
        kw = {}
        if window is not None:
            kw['window'] = window
        if rng.random() < 0.5:
            kw['penalty'] = 0.5
        if rng.random() < 0.3:
            p = rng.randint(0, L)
            kw['psi'] = p
        c = series[rng.randrange(n)].copy()
        avg = dtw_barycenter.dba(series, c, use_c=True, **kw)
        results.append(('dba', n, L, sorted(kw.items()), arr(avg)))


def main():
    rng = random.Random(20240817)
    maxlen = 6
    for l1, l2 in itertools.product(range(1, maxlen + 1), repeat=2):
        for window in [None] + list(range(1, max(l1, l2) + 2)):
            for rep in range(6):
                one_config(rng, l1, l2, window)
    python_level(random.Random(77))
    local_conc(random.Random(78))
    dba(random.Random(79))
    h = hashlib.sha256(repr(results).encode('utf-8')).hexdigest()
    print('NRESULTS', len(results), file=sys.stderr)
    print('DIGEST', h)
    return 0


if __name__ == '__main__':
    sys.exit(main())
