#!/usr/bin/env python3
"""Randomised bit-for-bit comparison for property C05 (best path validity / path cost).

Calls every routine that produces a warping path (and the cost matrices the
paths are traced from) through the public API on seeded random inputs and
option combinations, and prints `DIGEST <sha256>` of the repr of all results.

Run with  PYTHONPATH=<worktree>/src  on the original and on the refactored tree;
both DIGEST lines must be identical.
"""
import hashlib
import random
import sys

import numpy as np

from dtaidistance import dtw, dtw_ndim, innerdistance
from dtaidistance import dtw_cc

N_CASES = 1400
rng = random.Random(20260929)
h = hashlib.sha256()
n_records = 0
n_exc = 0


def fx(v):
    """Exact, platform independent representation of a result."""
    if isinstance(v, np.ndarray):
        return ('nd', v.dtype.str, v.shape, v.tobytes().hex())
    if isinstance(v, (float, np.floating)):
        return float(v).hex()
    if isinstance(v, (int, np.integer)):
        return int(v)
    if isinstance(v, (list, tuple)):
        return tuple(fx(x) for x in v)
    if v is None or isinstance(v, (str, bool)):
        return v
    if hasattr(v, 'tolist'):  # array.array
        return tuple(fx(x) for x in v.tolist())
    return repr(v)


def rec(tag, fn, *args, **kwargs):
    """Call fn, feed (tag, exact result | exception type) to the digest, return result."""
    global n_records, n_exc
    try:
        out = fn(*args, **kwargs)
        r = ('ok', fx(out))
    except Exception as exc:  # same exception type must be raised before / after
        out = None
        r = ('exc', type(exc).__name__)
        n_exc += 1
    h.update(repr((tag, r)).encode())
    n_records += 1
    return out


def series(n, ndim, style):
    if style == 'int':       # many ties -> exercises tie-breaking in the back-trackers
        gen = lambda: float(rng.randint(0, 3))
    elif style == 'half':
        gen = lambda: rng.randint(-4, 4) / 2.0
    else:
        gen = lambda: rng.gauss(0.0, 1.5)
    if ndim == 0:
        return np.array([gen() for _ in range(n)], dtype=np.double)
    return np.array([[gen() for _ in range(ndim)] for _ in range(n)], dtype=np.double)


def pick_psi(l1, l2):
    """psi never exceeds (length - 1) of the series it relaxes (larger values are outside the
    documented use and make the C engine read cells it never wrote)."""
    k = rng.random()
    m1 = max(0, min(3, l1 - 1))
    m2 = max(0, min(3, l2 - 1))
    m = min(m1, m2)
    if k < 0.40:
        return None
    if k < 0.60:
        return rng.randint(0, m)
    if k < 0.70:
        return 0
    return (rng.randint(0, m1), rng.randint(0, m1), rng.randint(0, m2), rng.randint(0, m2))


def one_case(ci):
    ndim = rng.choice([0, 0, 0, 2, 3])
    l1 = rng.randint(1, 13)
    l2 = rng.randint(1, 13)
    if rng.random() < 0.25:
        l2 = l1
    style = rng.choice(['int', 'half', 'gauss', 'gauss'])
    s1 = series(l1, ndim, style)
    s2 = series(l2, ndim, style)
    window = rng.choice([None, None, 1, 2, 3, 4, 6, 20])
    penalty = rng.choice([None, None, 0, 0.5, 1.0, 2.25])
    psi = pick_psi(l1, l2)
    inner = rng.choice(['squared euclidean', 'squared euclidean', 'euclidean'])
    max_step = rng.choice([None, None, None, None, 1.5, 3.0])
    max_dist = rng.choice([None, None, None, None, None, 2.0, 6.0])
    use_pruning = rng.random() < 0.1
    max_length_diff = rng.choice([None, None, None, None, 2, 5])
    kw = dict(window=window, penalty=penalty, psi=psi, inner_dist=inner)
    if max_step is not None:
        kw['max_step'] = max_step
    if max_dist is not None:
        kw['max_dist'] = max_dist
    if use_pruning:
        kw['use_pruning'] = True
    if max_length_diff is not None:
        kw['max_length_diff'] = max_length_diff
    use_ndim = ndim != 0
    tag = (ci, ndim, l1, l2, style, tuple(sorted((k, repr(v)) for k, v in kw.items())))
    h.update(repr(tag).encode())

    st = dtw.DTWSettings.for_dtw(s1, s2, use_ndim=use_ndim, **kw)
    ckw = st.c_kwargs()
    # distance_fast (rolling two-row buffer, not a routine under test here) reads cells it never
    # wrote when the psi relaxation reaches outside the window band, so its value then depends
    # on the heap; it is only recorded when psi stays inside the band.
    psi_in_band = window is None or max(st.split_psi()) < window

    # ---- cost matrices, Python engine -------------------------------------------------
    for psi_neg in (True, False):
        for keep in (False, True):
            out = rec(('py_wps', psi_neg, keep), dtw.warping_paths, s1, s2, psi_neg=psi_neg,
                      keep_int_repr=keep, use_ndim=use_ndim, **kw)
            if out is None or out[1] is None:
                continue
            d, paths = out
            rec(('py_bp', psi_neg, keep), dtw.best_path, paths)
            if keep:
                rec(('py_bp_pen', psi_neg), dtw.best_path, paths, penalty=st.adj_penalty)
            if psi_neg and not keep:
                rec('py_bp2', dtw.best_path2, paths)
                rec('py_bp_max', dtw.best_path, paths, use_max=True)
                # custom start cells
                for _ in range(3):
                    r0 = rng.randint(1, l1)
                    c0 = rng.randint(1, l2)
                    rec(('py_bp_rc', r0, c0), dtw.best_path, paths, row=r0, col=c0)
                rec(('py_bp_r', l1), dtw.best_path, paths, row=l1)
                rec(('py_bp_c', l2), dtw.best_path, paths, col=l2)

    # ---- cost matrices, C engine ------------------------------------------------------
    for psi_neg in (True, False):
        for keep in (False, True):
            out = rec(('c_wps', psi_neg, keep), dtw.warping_paths_fast, s1, s2, psi_neg=psi_neg,
                      keep_int_repr=keep, use_ndim=use_ndim, **kw)
            if out is not None and out[1] is not None:
                d, paths = out
                rec(('c_bp', psi_neg, keep), dtw.best_path, paths)
                if keep:
                    rec(('c_bp_pen', psi_neg), dtw.best_path, paths, penalty=st.adj_penalty)
                if psi_neg and not keep:
                    r0 = rng.randint(1, l1)
                    c0 = rng.randint(1, l2)
                    rec(('c_bp_rc', r0, c0), dtw.best_path, paths, row=r0, col=c0)
            # compact layout + C back-tracker through regions D, C, A-B
            out = rec(('c_wps_compact', psi_neg, keep), dtw.warping_paths_fast, s1, s2,
                      psi_neg=psi_neg, keep_int_repr=keep, compact=True, use_ndim=use_ndim, **kw)
            if out is not None and out[1] is not None and psi_neg and keep:
                d, wpsc = out
                rec('c_bp_compact', dtw_cc.best_path_compact, wpsc, l1, l2, **ckw)

    # via use_c=True in the generic entry point
    rec('wps_use_c', dtw.warping_paths, s1, s2, use_c=True, use_ndim=use_ndim, **kw)

    # ---- geometry of the compact layout -----------------------------------------------
    rec('wps_width', dtw_cc.wps_width, l1, l2, **ckw)
    rec('wps_length', dtw_cc.wps_length, l1, l2, **ckw)

    def parts():
        p = dtw_cc.DTWWps(l1, l2, dtw_cc.DTWSettings(**ckw))
        return (p.ri1, p.ri2, p.ri3)
    rec('wps_parts', parts)

    # ---- paths computed directly from two series --------------------------------------
    rec('warping_path_py', dtw.warping_path, s1, s2, include_distance=True, use_ndim=use_ndim, **kw)
    rec('warping_path_py_nod', dtw.warping_path, s1, s2, use_ndim=use_ndim, **kw)
    rec('warping_path_usec', dtw.warping_path, s1, s2, include_distance=True, use_ndim=use_ndim,
        use_c=True, **kw)
    if not use_ndim:
        rec('warping_path_fast', dtw.warping_path_fast, s1, s2, include_distance=True, **kw)
        rec('warping_path_fast_nod', dtw.warping_path_fast, s1, s2, **kw)
        rec('cc_warping_path', dtw_cc.warping_path, s1, s2, include_distance=True, **ckw)
        rec('warp_py', dtw.warp, s1, s2, **kw)
        rec('warp_c', dtw.warp, s1, s2, use_c=True, **kw)
        rec('wp_penalty', dtw.warping_path_penalty, s1, s2, penalty_post=0.75, **kw)
        rec('dist_py', dtw.distance, s1, s2, **kw)
        if psi_in_band:
            rec('dist_c', dtw.distance_fast, s1, s2, **kw)
    else:
        rec('cc_warping_path_ndim', dtw_cc.warping_path_ndim, s1, s2, ndim, include_distance=True,
            **ckw)
        rec('ndim_warping_path', dtw_ndim.warping_path, s1, s2, **kw)
        rec('ndim_wps_py', dtw_ndim.warping_paths, s1, s2, **kw)
        rec('ndim_wps_c', dtw_ndim.warping_paths_fast, s1, s2, **kw)
        rec('ndim_dist_py', dtw_ndim.distance, s1, s2, **kw)
        if psi_in_band:
            rec('ndim_dist_c', dtw_ndim.distance_fast, s1, s2, **kw)


def geometry_sweep():
    """Exhaustive small sweep over (l1, l2, window, psi) for the compact-layout geometry and
    for paths on tie-heavy series (no randomness in the options)."""
    r2 = random.Random(7)
    for l1 in range(1, 10):
        for l2 in range(1, 10):
            s1 = np.array([float(r2.randint(0, 2)) for _ in range(l1)])
            s2 = np.array([float(r2.randint(0, 2)) for _ in range(l2)])
            for window in (None, 1, 2, 3, 5, 12):
                for psi in (None, 1, (0, 2, 1, 0), (2, 0, 0, 2)):
                    if psi is not None:
                        p4 = (psi,) * 4 if isinstance(psi, int) else psi
                        if max(p4[0], p4[1]) > l1 - 1 or max(p4[2], p4[3]) > l2 - 1:
                            continue
                    for penalty in (None, 1.0):
                        kw = dict(window=window, psi=psi, penalty=penalty)
                        st = dtw.DTWSettings.for_dtw(s1, s2, **kw)
                        ckw = st.c_kwargs()
                        tag = ('sweep', l1, l2, window, psi, penalty)
                        rec(tag + ('w',), dtw_cc.wps_width, l1, l2, **ckw)
                        rec(tag + ('l',), dtw_cc.wps_length, l1, l2, **ckw)
                        rec(tag + ('py',), dtw.warping_path, s1, s2, include_distance=True, **kw)
                        rec(tag + ('c',), dtw.warping_path_fast, s1, s2, include_distance=True, **kw)
                        out = rec(tag + ('wps',), dtw.warping_paths, s1, s2, **kw)
                        if out is not None and out[1] is not None:
                            rec(tag + ('bp',), dtw.best_path, out[1])
                        out = rec(tag + ('cwps',), dtw.warping_paths_fast, s1, s2, compact=True,
                                  keep_int_repr=True, **kw)
                        if out is not None and out[1] is not None:
                            rec(tag + ('cbp',), dtw_cc.best_path_compact, out[1], l1, l2, **ckw)


def main():
    for ci in range(N_CASES):
        one_case(ci)
    geometry_sweep()
    sys.stderr.write('records=%d exceptions=%d\n' % (n_records, n_exc))
    print('DIGEST ' + h.hexdigest())
    return 0


if __name__ == '__main__':
    sys.exit(main())
