#!/usr/bin/env python
"""Randomised bit-for-bit comparison of the DBA routines (property C12).

Calls dtw_barycenter.dba (Python engine and use_c=True), dtw_cc.dba / dba_ndim
directly, and dtw_barycenter.dba_loop (both engines) on seeded random data:
equal/unequal length, ndim 1..3, list or matrix container, random initial
averages, random masks (>= 1 selected series, plus None), window / penalty /
psi / max_step settings.  Prints `DIGEST <sha256>` over the repr of all results.
"""
import ctypes
import hashlib
import io
import os
import contextlib
import random
import sys

import numpy as np

from dtaidistance import dtw_barycenter, dtw_cc
from dtaidistance.util import SeriesContainer


def enc(x):
    """Bit-exact, type-revealing encoding of a result."""
    if isinstance(x, tuple):
        return ('tuple', tuple(enc(v) for v in x))
    if isinstance(x, list):
        return ('list', [enc(v) for v in x])
    if isinstance(x, np.ndarray):
        return ('nd', str(x.dtype), x.shape, np.ascontiguousarray(x).tobytes().hex())
    try:
        a = np.asarray(x, dtype=np.double)
        return (type(x).__name__, a.shape, np.ascontiguousarray(a).tobytes().hex())
    except Exception:
        return (type(x).__name__, repr(x))


def make_series(rng, n, ndim, equal, base_len):
    series = []
    for _ in range(n):
        ln = base_len if equal else int(rng.integers(max(3, base_len - 4), base_len + 5))
        shape = (ln,) if ndim == 1 else (ln, ndim)
        kind = int(rng.integers(0, 3))
        if kind == 0:
            a = rng.normal(size=shape)
        elif kind == 1:
            a = np.cumsum(rng.normal(size=shape), axis=0)
        else:
            # coarse values -> many ties in the cost matrix
            a = rng.integers(-3, 4, size=shape).astype(np.double)
        series.append(np.ascontiguousarray(a, dtype=np.double))
    return series


def window_safe(ts, lens, w):
    """True when the scratch matrix the C DBA kernel allocates (sized for the longest
    series) is large enough for every series under window w.  Narrow windows combined
    with unequal lengths overrun it in the unmodified library (heap corruption), so
    such combinations are outside the domain exercised here."""
    def width(l1, l2):
        ww = min(w, max(l1, l2))
        return min(l2 + 1, abs(l1 - l2) + 2 * ww + 1)
    return all(width(t, l2) <= width(t, max(lens)) for t in ts for l2 in lens)


def pick_window(rng, ts, lens, lo, hi):
    for _ in range(20):
        w = int(rng.integers(lo, hi))
        if window_safe(ts, lens, w):
            return w
    return max(lens + ts) + int(rng.integers(0, 3))


def make_settings(rng, pyrng, base_len, t, lens):
    opts = [{}]
    opts.append({'window': pick_window(rng, t, lens, 2, base_len + 2)})
    opts.append({'penalty': float(pyrng.choice([0.0, 0.1, 0.5, 2.0]))})
    opts.append({'window': pick_window(rng, t, lens, 3, base_len + 2),
                 'penalty': float(pyrng.choice([0.05, 1.0]))})
    opts.append({'psi': int(rng.integers(0, 3))})
    opts.append({'max_step': float(pyrng.choice([0.5, 1.5, 4.0]))})
    opts.append({'max_dist': float(pyrng.choice([2.0, 10.0, 100.0]))})
    opts.append({'use_pruning': True})
    opts.append({'max_length_diff': int(rng.integers(3, 10))})
    return opts


def call(results, label, fn):
    buf = io.StringIO()
    try:
        with contextlib.redirect_stdout(buf):
            out = fn()
        results.append((label, 'ok', enc(out), buf.getvalue()))
    except Exception as exc:  # keep the exception type + text as the result
        results.append((label, 'exc', type(exc).__name__, str(exc)))


def main():
    # The C kernels printf() a warning for unaligned positions; keep that noise off
    # our stdout (the DIGEST line must stay readable) by parking fd 1 on /dev/null.
    sys.stdout.flush()
    saved_fd = os.dup(1)
    devnull = os.open(os.devnull, os.O_WRONLY)
    os.dup2(devnull, 1)
    try:
        results = run_all()
    finally:
        sys.stdout.flush()
        try:
            ctypes.CDLL(None).fflush(None)
        except Exception:
            pass
        os.dup2(saved_fd, 1)
        os.close(devnull)
        os.close(saved_fd)
    digest = hashlib.sha256(repr(results).encode('utf-8')).hexdigest()
    n_ok = sum(1 for r in results if r[1] == 'ok')
    print('CALLS', len(results), 'OK', n_ok, 'EXC', len(results) - n_ok)
    print('DIGEST', digest)
    return 0


def run_all():
    results = []
    rng = np.random.default_rng(20240912)
    pyrng = random.Random(1212)
    case = 0
    for ndim in (1, 2, 3):
        for equal in (True, False):
            for container in ('list', 'matrix', 'wrapped'):
                if container == 'matrix' and not equal:
                    continue
                for rep in range(6):
                    case += 1
                    n = int(rng.integers(1, 9))
                    base_len = int(rng.integers(5, 14))
                    series = make_series(rng, n, ndim, equal, base_len)
                    if container == 'matrix':
                        s = np.ascontiguousarray(np.array(series))
                    elif container == 'wrapped':
                        s = SeriesContainer.wrap(list(series))
                    else:
                        s = list(series)
                    # masks
                    masks = [None, np.full((n,), True, dtype=bool)]
                    for _ in range(2):
                        m = rng.random(n) < 0.5
                        m[int(rng.integers(0, n))] = True
                        masks.append(m)
                    single = np.zeros((n,), dtype=bool)
                    single[int(rng.integers(0, n))] = True
                    masks.append(single)
                    # initial averages
                    clen = int(rng.integers(3, base_len + 4))
                    cshape = (clen,) if ndim == 1 else (clen, ndim)
                    inits = [
                        np.ascontiguousarray(rng.normal(size=cshape)),
                        series[int(rng.integers(0, n))].copy(),
                        np.zeros(cshape, dtype=np.double),
                    ]
                    settings_list = make_settings(rng, pyrng, base_len, [len(x) for x in inits], [len(x) for x in series])
                    for mi, mask in enumerate(masks):
                        for ci, c0 in enumerate(inits):
                            # two random settings per (mask, init) + the default
                            chosen = [settings_list[0]] + pyrng.sample(settings_list[1:], 2)
                            for kw in chosen:
                                lbl = (case, ndim, equal, container, rep, mi, ci, tuple(sorted(kw.items())))
                                # --- single step, Python engine
                                call(results, lbl + ('dba_py',),
                                     lambda: dtw_barycenter.dba(s, c0.copy(), mask=mask, use_c=False, **kw))
                                # --- single step, Python accumulation over C paths
                                call(results, lbl + ('dba_usec',),
                                     lambda: dtw_barycenter.dba(s, c0.copy(), mask=mask, use_c=True, **kw))
                                # --- single step, C engine through dtw_cc
                                bmask = np.full((n,), True, dtype=bool) if mask is None else mask
                                packed = np.packbits(bmask, bitorder='little')

                                def c_step():
                                    cc = c0.copy()
                                    if ndim == 1:
                                        r = dtw_cc.dba(s, cc, mask=packed, nb_prob_samples=0, **kw)
                                    else:
                                        r = dtw_cc.dba_ndim(s, cc, mask=packed, nb_prob_samples=0, ndim=ndim, **kw)
                                    return (np.asarray(r), cc)
                                call(results, lbl + ('dba_cc',), c_step)
                                # --- loops
                                max_it = int(pyrng.choice([1, 2, 5]))
                                thr = pyrng.choice([None, 0.001, 0.1])
                                for use_c in (False, True):
                                    call(results, lbl + ('loop', use_c, max_it, thr),
                                         lambda: dtw_barycenter.dba_loop(
                                             s, c=c0.copy(), max_it=max_it, thr=thr, mask=mask,
                                             keep_averages=True, use_c=use_c, **kw))
                            # probabilistic path sampling (C only; rand() with the default seed)
                            bmask2 = np.full((n,), True, dtype=bool) if mask is None else mask
                            packed2 = np.packbits(bmask2, bitorder='little')

                            def c_prob():
                                cc = c0.copy()
                                if ndim == 1:
                                    dtw_cc.dba(s, cc, mask=packed2, nb_prob_samples=2)
                                else:
                                    dtw_cc.dba_ndim(s, cc, mask=packed2, nb_prob_samples=2, ndim=ndim)
                                return cc
                            call(results, (case, mi, ci, 'dba_cc_prob'), c_prob)
                            call(results, (case, mi, ci, 'loop_c_prob'),
                                 lambda: dtw_barycenter.dba_loop(s, c=c0.copy(), max_it=2, mask=mask,
                                                                 nb_prob_samples=3, use_c=True))
                            # c=None start (first selected series / dba picks it)
                            call(results, (case, mi, ci, 'dba_py_cnone'),
                                 lambda: dtw_barycenter.dba(s, None, mask=mask, use_c=False))
                            call(results, (case, mi, ci, 'loop_cnone_py'),
                                 lambda: dtw_barycenter.dba_loop(s, c=None, max_it=3, mask=mask, use_c=False))
                            call(results, (case, mi, ci, 'loop_cnone_c'),
                                 lambda: dtw_barycenter.dba_loop(s, c=None, max_it=3, mask=mask, use_c=True))
                    # empty mask (Python engine special case) and `samples` guard
                    call(results, (case, 'emptymask'),
                         lambda: dtw_barycenter.dba(s, inits[0].copy(), mask=np.zeros((n,), dtype=bool)))
                    call(results, (case, 'samples'),
                         lambda: dtw_barycenter.dba(s, inits[0].copy(), samples=2))
                    call(results, (case, 'samples0'),
                         lambda: dtw_barycenter.dba(s, inits[0].copy(), samples=0))
                    # list mask with the C loop is rejected
                    call(results, (case, 'listmask_c'),
                         lambda: dtw_barycenter.dba_loop(s, c=inits[0].copy(), max_it=1,
                                                         mask=[True] * n, use_c=True))
                    call(results, (case, 'listmask_py'),
                         lambda: dtw_barycenter.dba_loop(s, c=inits[0].copy(), max_it=2,
                                                         mask=[True] * n, use_c=False))
                    call(results, (case, 'prob_py'),
                         lambda: dtw_barycenter.dba_loop(s, c=inits[0].copy(), max_it=1,
                                                         nb_prob_samples=2, use_c=False))
    # identical series are a fixed point; array.array / list-of-lists containers
    import array
    for k in range(10):
        ln = int(rng.integers(4, 12))
        base = rng.normal(size=ln)
        s_same = [base.copy() for _ in range(int(rng.integers(1, 6)))]
        call(results, ('fixed', k, 'py'), lambda: dtw_barycenter.dba(s_same, base.copy()))
        call(results, ('fixed', k, 'c'), lambda: dtw_barycenter.dba_loop(s_same, c=base.copy(), max_it=3, use_c=True))
        s_arr = [array.array('d', rng.normal(size=int(rng.integers(4, 10))).tolist()) for _ in range(4)]
        c_arr = array.array('d', rng.normal(size=6).tolist())
        call(results, ('arr', k, 'py'), lambda: dtw_barycenter.dba(s_arr, c_arr))
        call(results, ('arr', k, 'pyloop'), lambda: dtw_barycenter.dba_loop(s_arr, c=c_arr, max_it=2, use_c=False))
        call(results, ('arr', k, 'cloop'),
             lambda: dtw_barycenter.dba_loop(s_arr, c=np.array(c_arr), max_it=2, use_c=True))

    return results


if __name__ == '__main__':
    sys.exit(main())
