"""r5 demo: dtw_distances_prepare (dd_dtw_openmp.c), reached through every parallel
distance-matrix routine of the C engine (ptrs / matrix / ndim, triu and full blocks)."""
import hashlib
import random
import numpy as np
from dtaidistance import dtw, dtw_ndim, dtw_cc, dtw_cc_omp

assert dtw_cc_omp.is_openmp_supported()
rng = random.Random(50805)
results = []


def hx(arr):
    return [float(v).hex() for v in arr]


def rand_block(n):
    kind = rng.randint(0, 5)
    if kind == 0:
        return None
    if kind == 1:
        return ((0, 0), (0, 0))            # "no block": re/ce are corrected to n
    if kind == 2:
        return ((0, 0), (0, 0), False)     # full rectangular matrix
    rb = rng.randint(0, n - 1)
    re = rng.randint(rb + 1, n)
    cb = rng.randint(0, n - 1)
    ce = rng.randint(cb + 1, n)
    if kind == 3:
        return ((rb, re), (cb, ce))
    if kind == 4:
        return ((rb, re), (cb, ce), False)
    # re / ce == 0 with a non-zero begin is not meaningful; use open ends from 0
    return ((0, re), (0, ce))


def rand_settings(maxlen):
    kw = {}
    if rng.random() < 0.6:
        kw["window"] = rng.randint(1, maxlen + 1)
    if rng.random() < 0.3:
        # psi is kept <= window: with psi > window the unmodified kernel already reads
        # never-written cells of its rolling buffer and the result is not reproducible
        kw["psi"] = rng.randint(0, min(2, kw.get("window", 2)))
    if rng.random() < 0.3:
        kw["penalty"] = rng.uniform(0, 1.5)
    if rng.random() < 0.3:
        kw["max_dist"] = rng.uniform(1, 20)
    if rng.random() < 0.3:
        kw["max_step"] = rng.uniform(1, 10)
    if rng.random() < 0.3:
        kw["use_pruning"] = True
    kw["inner_dist"] = rng.choice(["squared euclidean", "euclidean"])
    return kw


for it in range(900):
    n = rng.randint(2, 9)
    block = rand_block(n)
    mode = it % 4
    if mode == 0:
        # list of series of different lengths -> DTWSeriesPointers
        series = [np.array([rng.uniform(-2, 2) for _ in range(rng.randint(2, 9))]) for _ in range(n)]
        maxlen = max(len(s) for s in series)
        kw = rand_settings(maxlen)
        d_par = dtw_cc_omp.distance_matrix(series, block=block, **kw)
        d_seq = dtw_cc.distance_matrix(series, block=block, **kw)
    elif mode == 1:
        # 2-D matrix -> DTWSeriesMatrix
        L = rng.randint(2, 9)
        series = np.array([[rng.uniform(-2, 2) for _ in range(L)] for _ in range(n)])
        kw = rand_settings(L)
        d_par = dtw_cc_omp.distance_matrix(series, block=block, **kw)
        d_seq = dtw_cc.distance_matrix(series, block=block, **kw)
    elif mode == 2:
        # n-dimensional, 3-D matrix
        L = rng.randint(2, 8)
        ndim = rng.randint(1, 3)
        series = np.array([[[rng.uniform(-2, 2) for _ in range(ndim)] for _ in range(L)] for _ in range(n)])
        kw = rand_settings(L)
        d_par = dtw_cc_omp.distance_matrix_ndim(series, ndim, block=block, **kw)
        d_seq = dtw_cc.distance_matrix_ndim(series, ndim, block=block, **kw)
    else:
        # n-dimensional, list of 2-D series of different lengths -> pointers
        ndim = rng.randint(1, 3)
        series = [np.array([[rng.uniform(-2, 2) for _ in range(ndim)] for _ in range(rng.randint(2, 8))])
                  for _ in range(n)]
        maxlen = max(len(s) for s in series)
        kw = rand_settings(maxlen)
        d_par = dtw_cc_omp.distance_matrix_ndim(series, ndim, block=block, **kw)
        d_seq = dtw_cc.distance_matrix_ndim(series, ndim, block=block, **kw)
    results.append((mode, n, block, sorted(kw.items()), len(d_par), hx(d_par), hx(d_seq)))

# high-level API (compact and square results)
for it in range(300):
    n = rng.randint(2, 10)
    series = [np.array([rng.uniform(-2, 2) for _ in range(rng.randint(2, 12))]) for _ in range(n)]
    block = rng.choice([None, rand_block(n)])
    if block == ((0, 0), (0, 0)) or block == ((0, 0), (0, 0), False):
        block = None
    # (square output of an empty upper-triangular block is not supported by the library)
    compact = True if block is not None else bool(rng.getrandbits(1))
    window = rng.choice([None, rng.randint(1, 13)])
    m = dtw.distance_matrix(series, block=block, compact=compact, parallel=True, use_c=True,
                            window=window, psi=rng.choice([None, 1]))
    results.append(("hl", n, block, compact, window, np.asarray(m).shape, hx(np.asarray(m, dtype=float).ravel())))
    m = dtw.distance_matrix_fast(series, block=block, compact=compact, window=window)
    results.append(("fast", hx(np.asarray(m, dtype=float).ravel())))

print("N", len(results))
print("DIGEST", hashlib.sha256(repr(results).encode()).hexdigest())
