"""r4 demo: dtw_expand_wps / dtw_expand_wps_slice (+ _affinity variants) of the C engine.

The compact warping-paths buffer is computed by the C kernels and expanded
 - to the full (l1+1)x(l2+1) matrix (dtw_cc.warping_paths, warping_paths_ndim,
   warping_paths_affinity, and the high level dtw.warping_paths / warping_paths_affinity), and
 - to slices of it (dtw_cc.wps_expand_slice).
"""
import hashlib
import itertools
import random
import numpy as np
from dtaidistance import dtw, dtw_cc

rng = random.Random(40804)
results = []


def h(a):
    a = np.ascontiguousarray(a, dtype=np.double)
    return (a.shape, hashlib.sha256(a.tobytes()).hexdigest())


def series(n, ndim=None):
    if ndim is None:
        return np.array([rng.uniform(-3, 3) for _ in range(n)], dtype=np.double)
    return np.array([[rng.uniform(-3, 3) for _ in range(ndim)] for _ in range(n)], dtype=np.double)


def psi_choices(l1, l2):
    m = min(l1, l2)
    yield None
    yield rng.randint(0, m)
    yield (rng.randint(0, l1), rng.randint(0, l1), rng.randint(0, l2), rng.randint(0, l2))


def settings_for(l1, l2, window, psi, inner):
    kw = {"inner_dist": inner}
    if window is not None:
        kw["window"] = window
    if psi is not None:
        kw["psi"] = psi
    if rng.random() < 0.3:
        kw["penalty"] = rng.uniform(0.0, 2.0)
    if rng.random() < 0.25:
        kw["max_step"] = rng.uniform(0.5, 8.0)
    if rng.random() < 0.25:
        kw["max_dist"] = rng.uniform(0.5, 30.0)
    if rng.random() < 0.2:
        kw["use_pruning"] = True
    return kw


# 1. full expansion, exhaustive over small lengths and all windows
for l1, l2 in itertools.product(range(1, 8), repeat=2):
    s1 = series(l1)
    s2 = series(l2)
    for window in [None] + list(range(0, max(l1, l2) + 2)):
        for psi in psi_choices(l1, l2):
            for inner in (0, 1):
                kw = settings_for(l1, l2, window, psi, inner)
                full = np.full((l1 + 1, l2 + 1), np.inf)
                d = dtw_cc.warping_paths(full, s1, s2, psi_neg=bool(rng.getrandbits(1)),
                                         keep_int_repr=bool(rng.getrandbits(1)), **kw)
                results.append(("wp", l1, l2, window, inner, float(d).hex(), h(full)))
                # affinity variant
                kwa = {k: v for k, v in kw.items() if k in ("window", "psi", "penalty")}
                fulla = np.full((l1 + 1, l2 + 1), -np.inf)
                d = dtw_cc.warping_paths_affinity(fulla, s1, s2, bool(rng.getrandbits(1)) and l1 == l2,
                                                  1.0, 0.2, -0.3, 0.5,
                                                  psi_neg=bool(rng.getrandbits(1)), **kwa)
                results.append(("wpa", float(d).hex(), h(fulla)))

# 2. ndim full expansion
for _ in range(400):
    l1 = rng.randint(1, 14)
    l2 = rng.randint(1, 14)
    ndim = rng.randint(1, 3)
    s1 = series(l1, ndim)
    s2 = series(l2, ndim)
    window = rng.choice([None, 0] + list(range(1, max(l1, l2) + 2)))
    psi = rng.choice(list(psi_choices(l1, l2)))
    kw = settings_for(l1, l2, window, psi, rng.randint(0, 1))
    full = np.full((l1 + 1, l2 + 1), np.inf)
    d = dtw_cc.warping_paths_ndim(full, s1, s2, psi_neg=bool(rng.getrandbits(1)), **kw)
    results.append(("wpn", l1, l2, ndim, window, float(d).hex(), h(full)))

# 3. high-level API
for _ in range(400):
    l1 = rng.randint(1, 25)
    l2 = rng.randint(1, 25)
    s1 = series(l1)
    s2 = series(l2)
    window = rng.choice([None] + list(range(1, max(l1, l2) + 2)))
    psi = rng.choice([None, rng.randint(0, min(l1, l2))])
    d, paths = dtw.warping_paths(s1, s2, window=window, psi=psi, use_c=True,
                                 penalty=rng.choice([None, 0.5]),
                                 inner_dist=rng.choice(["squared euclidean", "euclidean"]))
    results.append(("hl", l1, l2, window, psi, float(d).hex(), h(paths)))
    d, paths = dtw.warping_paths_affinity(s1, s2, window=window, psi=psi, use_c=True,
                                          gamma=0.7, tau=0.1, delta=-0.2, delta_factor=0.9)
    results.append(("hla", float(d).hex(), h(paths)))

# 4. slices of a compact affinity buffer
for _ in range(1200):
    l1 = rng.randint(1, 16)
    l2 = rng.randint(1, 16)
    s1 = series(l1)
    s2 = series(l2)
    window = rng.choice([None, 0] + list(range(1, max(l1, l2) + 2)))
    kw = {}
    if window is not None:
        kw["window"] = window
    if rng.random() < 0.4:
        kw["psi"] = rng.randint(0, min(l1, l2))
    if rng.random() < 0.3:
        kw["penalty"] = rng.uniform(0, 1)
    width = dtw_cc.wps_width(l1, l2, **kw)
    compact = np.full((l1 + 1, width), -np.inf)
    d = dtw_cc.warping_paths_compact_affinity(compact, s1, s2, False, 1.0, 0.2, -0.3, 0.5,
                                              psi_neg=bool(rng.getrandbits(1)), **kw)
    cs = dtw_cc.DTWSettings(**kw)
    results.append(("cmp", l1, l2, window, float(d).hex(), h(compact)))
    for _ in range(4):
        if rng.random() < 0.5 or l2 < 2:
            # leading rows, all columns
            rb, re = 0, rng.randint(1, l1 + 1)
            cb, ce = 0, l2 + 1
        else:
            rb = rng.randint(1, l1)
            re = rng.randint(rb + 1, l1 + 1)
            cb = rng.randint(2, l2)
            ce = rng.randint(cb + 1, l2 + 1)
        sl = np.full((re - rb, ce - cb), 123.0)
        dtw_cc.wps_expand_slice(compact, sl, l1, l2, rb, re, cb, ce, cs)
        results.append(("sl", rb, re, cb, ce, h(sl)))

print("N", len(results))
print("DIGEST", hashlib.sha256(repr(results).encode()).hexdigest())
