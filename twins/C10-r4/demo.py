"""Demo for r4: MIN/MAX macros in the C routine dtw_wps_parts replaced by explicit comparisons.

dtw_wps_parts defines the band of the C warping-paths matrix (window, width, length, ldiff and
the row segments ri1/ri2/ri3) and is used by every C full-matrix routine.  The demo
  * tabulates width / length / ri1 / ri2 / ri3 for a dense grid of (l1, l2, window),
  * calls warping_paths_fast (expanded and compact), warping_path_fast, best_path_compact,
    the affinity variant and the n-dim variant on seeded random inputs with the comparable
    settings of the property (window w / w+1, psi p / p+1, penalty, max_step, swapped series),
  * cross-checks against distance_fast,
and prints a digest of all results.
"""
import hashlib
import random
import sys

import numpy as np

from dtaidistance import dtw, dtw_ndim, dtw_cc

results = []


def norm(value):
    if isinstance(value, np.ndarray):
        return ('nd', value.shape, value.tolist())
    if isinstance(value, (tuple, list)):
        return type(value)(norm(v) for v in value)
    if isinstance(value, np.generic):
        return value.item()
    return value


def call(tag, fn, *args, **kwargs):
    try:
        results.append((tag, repr(norm(fn(*args, **kwargs)))))
    except Exception as exc:
        results.append((tag, 'EXC ' + type(exc).__name__ + ' ' + str(exc)))


# 1. dense table of the band geometry
for l1 in range(0, 15):
    for l2 in range(0, 15):
        for window in list(range(0, 18)) + [40, 1000]:
            settings = dtw_cc.DTWSettings(window=window)
            p = dtw_cc.DTWWps(l1, l2, settings)
            results.append((('parts', l1, l2, window),
                            repr((p.ri1, p.ri2, p.ri3,
                                  dtw_cc.wps_width(l1, l2, window=window),
                                  dtw_cc.wps_length(l1, l2, window=window)))))
for l1, l2, window in [(100, 80, 7), (80, 100, 7), (1000, 1000, 1), (1000, 10, 3), (10, 1000, 3),
                       (517, 733, 0), (733, 517, 900), (65536, 65535, 2)]:
    settings = dtw_cc.DTWSettings(window=window, psi=2, penalty=0.5)
    p = dtw_cc.DTWWps(l1, l2, settings)
    results.append((('parts-big', l1, l2, window),
                    repr((p.ri1, p.ri2, p.ri3,
                          dtw_cc.wps_width(l1, l2, window=window),
                          dtw_cc.wps_length(l1, l2, window=window)))))

rng = random.Random(90210)
nprng = np.random.RandomState(4242)


def rand_pair(ndim=None, maxlen=13):
    l1 = rng.randint(1, maxlen)
    l2 = l1 if rng.random() < 0.4 else rng.randint(1, maxlen)
    shape1 = (l1,) if ndim is None else (l1, ndim)
    shape2 = (l2,) if ndim is None else (l2, ndim)
    s1 = np.round(nprng.randn(*shape1) * 2, 3).astype(np.double)
    s2 = np.round(nprng.randn(*shape2) * 2, 3).astype(np.double)
    if rng.random() < 0.1:
        s2 = s1.copy()
    return s1, s2


def rand_psi(l1, l2, window=None):
    # psi is kept below the window: the compact C kernel reads outside its two-row buffer when
    # psi_2e > window (undefined values, not reproducible between runs) -- unrelated to this demo
    k = rng.randint(0, 3)
    m = max(0, min(l1, l2) - 2)
    if window is not None:
        m = min(m, window - 1)
    if k == 0 or m == 0:
        return None
    if k == 1:
        return rng.randint(0, min(3, m))
    return tuple(rng.randint(0, min(3, m)) for _ in range(4))


def bump_psi(psi):
    if psi is None:
        return 1
    if isinstance(psi, int):
        return psi + 1
    return tuple(p + 1 for p in psi)


def widen(o):
    """Variant of o with window + 1 (still not smaller than any psi entry, see rand_psi)."""
    o = dict(o)
    psi = o.get('psi', 0)
    max_psi = psi if isinstance(psi, int) else max(psi)
    o['window'] = max(o.get('window', 1) + 1, max_psi + 1)
    return o


def rand_opts(l1, l2):
    opts = {}
    if rng.random() < 0.75:
        opts['window'] = rng.randint(1, 8)
    psi = rand_psi(l1, l2, opts.get('window'))
    if psi is not None:
        opts['psi'] = psi
    if rng.random() < 0.4:
        opts['penalty'] = rng.choice([0.05, 0.5, 1.5, 3.0])
    if rng.random() < 0.3:
        opts['max_step'] = rng.choice([0.5, 1.5, 3.0, 6.0])
    if rng.random() < 0.3:
        opts['max_dist'] = rng.choice([1.0, 3.0, 6.0, 12.0])
    if rng.random() < 0.2:
        opts['use_pruning'] = True
    if rng.random() < 0.35:
        opts['inner_dist'] = 'euclidean'
    return opts


# 2. C full-matrix kernel, expanded and compact
for trial in range(900):
    s1, s2 = rand_pair()
    opts = rand_opts(len(s1), len(s2))
    psi_neg = rng.random() < 0.5
    keep = rng.random() < 0.5
    variants = [('base', opts)]
    variants.append(('w+1', widen(opts)))
    if min(len(s1), len(s2)) > 4:
        o = dict(opts); o['psi'] = bump_psi(opts.get('psi'))
        variants.append(('psi+1', o))
    o = dict(opts); o['penalty'] = opts.get('penalty', 0) + 0.75
    variants.append(('pen+', o))
    o = dict(opts); o['max_step'] = opts.get('max_step', 1.0) * 2
    variants.append(('ms+', o))
    for name, o in variants:
        call(('wpsf', trial, name), dtw.warping_paths_fast, s1, s2, psi_neg=psi_neg, keep_int_repr=keep, **o)
        call(('wpsf-swap', trial, name), dtw.warping_paths_fast, s2, s1, psi_neg=psi_neg, keep_int_repr=keep, **o)
        call(('wpsc', trial, name), dtw.warping_paths_fast, s1, s2, psi_neg=psi_neg, keep_int_repr=keep,
             compact=True, **o)
        call(('df', trial, name), dtw.distance_fast, s1, s2, **o)
        call(('df-swap', trial, name), dtw.distance_fast, s2, s1, **o)

# 3. best path on the compact matrix, warping_path_fast
for trial in range(400):
    s1, s2 = rand_pair()
    opts = {}
    if rng.random() < 0.8:
        opts['window'] = rng.randint(1, 8)
    psi = rand_psi(len(s1), len(s2), opts.get('window'))
    if psi is not None:
        opts['psi'] = psi
    if rng.random() < 0.4:
        opts['penalty'] = rng.choice([0.05, 0.5, 1.5])
    if rng.random() < 0.35:
        opts['inner_dist'] = 'euclidean'
    call(('wpf', trial), dtw.warping_path_fast, s1, s2, include_distance=True, **opts)
    call(('wpf-swap', trial), dtw.warping_path_fast, s2, s1, include_distance=True, **opts)
    try:
        d, wps = dtw.warping_paths_fast(s1, s2, compact=True, **opts)
        st = dtw.DTWSettings.for_dtw(s1, s2, **opts)
        call(('bpc', trial), dtw_cc.best_path_compact, wps, len(s1), len(s2), **st.c_kwargs())
    except Exception as exc:
        results.append((('bpc', trial), 'EXC ' + type(exc).__name__ + ' ' + str(exc)))

# 4. window 1 on equal lengths, identity
for trial in range(100):
    n = rng.randint(1, 12)
    s1 = np.round(nprng.randn(n), 3)
    s2 = np.round(nprng.randn(n), 3)
    for inner in ('squared euclidean', 'euclidean'):
        call(('w1', trial, inner), dtw.warping_paths_fast, s1, s2, window=1, inner_dist=inner)
        call(('id', trial, inner), dtw.warping_paths_fast, s1, s1, window=rng.randint(1, 4), inner_dist=inner)

# 5. affinity variant (same band geometry)
for trial in range(250):
    s1, s2 = rand_pair()
    kw = {}
    if rng.random() < 0.8:
        kw['window'] = rng.randint(1, 8)
    if rng.random() < 0.4:
        kw['penalty'] = rng.choice([0.1, 0.5, 1.5])
    call(('aff', trial), dtw.warping_paths_affinity_fast, s1, s2, gamma=1, tau=0.36, delta=-0.7,
         delta_factor=0.9, **kw)
    call(('affc', trial), dtw.warping_paths_affinity_fast, s1, s2, gamma=1, tau=0.36, delta=-0.7,
         delta_factor=0.9, compact=True, **kw)

# 6. n-dim
for trial in range(300):
    ndim = rng.randint(1, 3)
    s1, s2 = rand_pair(ndim=ndim)
    opts = rand_opts(len(s1), len(s2))
    psi_neg = rng.random() < 0.5
    keep = rng.random() < 0.5
    call(('nd', trial), dtw_ndim.warping_paths_fast, s1, s2, psi_neg=psi_neg, keep_int_repr=keep, **opts)
    call(('nd-swap', trial), dtw_ndim.warping_paths_fast, s2, s1, psi_neg=psi_neg, keep_int_repr=keep, **opts)
    o = widen(opts)
    call(('nd-w+1', trial), dtw_ndim.warping_paths_fast, s1, s2, psi_neg=psi_neg, keep_int_repr=keep, **o)
    call(('ndc', trial), dtw_ndim.warping_paths_fast, s1, s2, psi_neg=psi_neg, keep_int_repr=keep,
         compact=True, **opts)

digest = hashlib.sha256(repr(results).encode('utf-8')).hexdigest()
print('NRESULTS', len(results))
print('DIGEST', digest)
sys.exit(0)
