#!/usr/bin/env python
"""Randomised comparison for dtaidistance.dp.dp / alignment.needleman_wunsch /
alignment.best_alignment / alignment.make_substitution_fn.

Prints `DIGEST <sha256>` of the repr of every result. Run with
PYTHONPATH=<worktree>/src on the original and on the refactored code; the two
digests must be equal.
"""
import hashlib
import itertools
import random
import sys

import numpy as np

from dtaidistance import alignment
from dtaidistance.dp import dp, Direction

ALPHABETS = ["AB", "ACGT", "ACGTU-"]
ORDERS = [None] + [list(p) for p in itertools.permutations([0, 1, 2])]

h = hashlib.sha256()
count = 0


def rec(obj):
    global count
    h.update(repr(obj).encode("utf-8"))
    h.update(b"\n")
    count += 1


def arr(a):
    if a is None:
        return None
    a = np.asarray(a)
    if a.dtype.kind == "f":
        return (a.shape, str(a.dtype), a.tobytes().hex())
    return (a.shape, str(a.dtype), a.tolist())


def val(v):
    if v is None:
        return None
    return (type(v).__name__, float(v).hex())


def call(fn, *args, **kwargs):
    try:
        return ("ok", fn(*args, **kwargs))
    except Exception as exc:  # record the kind of failure as part of the result
        return ("exc", type(exc).__name__, str(exc))


def rand_seq(rng, alphabet, maxlen, minlen=0):
    n = rng.randint(minlen, maxlen)
    kind = rng.randrange(3)
    syms = [rng.choice(alphabet) for _ in range(n)]
    if kind == 0:
        return "".join(syms)
    if kind == 1:
        return syms
    return tuple(syms)


def rand_matrix(rng, alphabet, integral):
    m = {}
    for a in alphabet:
        for b in alphabet:
            if rng.random() < 0.6:
                if integral:
                    m[(a, b)] = rng.randint(-4, 4)
                else:
                    m[(a, b)] = rng.choice([-2.5, -1.0, -0.5, 0.0, 0.25, 0.5, 1.0, 1.5, 3.0])
    return m


def rand_substitution(rng, alphabet):
    k = rng.randrange(6)
    if k == 0:
        return None, "default"
    if k == 1:
        gap = rng.choice([0.5, 1, 2, 0, 1.5])
        return alignment.make_substitution_fn({}, gap=gap), ("gaponly", gap)
    integral = rng.random() < 0.5
    m = rand_matrix(rng, alphabet, integral)
    gap = rng.choice([1, 0.5, 2, 3, 0.25, 0])
    opt = rng.choice(["max", "min", "max", "other"])
    if rng.random() < 0.3:
        return alignment.make_substitution_fn(m), ("matrix-defaults", sorted(m.items()))
    return alignment.make_substitution_fn(m, gap=gap, opt=opt), ("matrix", sorted(m.items()), gap, opt)


def record_alignment(paths, s1, s2, rng):
    for order in ORDERS:
        rec(("ba", order, call(alignment.best_alignment, paths, s1, s2, order=order)))
    gap = rng.choice(["-", "_", None, 0])
    order = rng.choice(ORDERS)
    rec(("ba-gap", gap, order, call(alignment.best_alignment, paths, s1, s2, gap, order)))
    rec(("ba-nos", call(alignment.best_alignment, paths)))
    rec(("ba-s1", call(alignment.best_alignment, paths, s1=s1, order=order)))
    rec(("ba-s2", call(alignment.best_alignment, paths, s2=s2, gap="*", order=order)))


def nw_result(res):
    if res[0] != "ok":
        return res
    value, scores, paths = res[1]
    return ("ok", val(value), arr(scores), arr(paths))


def part_plain_nw(rng):
    """Property configurations: sequences x substitution x traceback orders."""
    for it in range(700):
        alphabet = rng.choice(ALPHABETS)
        maxlen = rng.choice([0, 1, 2, 3, 5, 8, 12])
        s1 = rand_seq(rng, alphabet, maxlen)
        s2 = rand_seq(rng, alphabet, maxlen)
        sub, desc = rand_substitution(rng, alphabet)
        rec(("nw", s1, s2, desc))
        if sub is not None:
            rec(("subfn", [sub(a, b) for a in alphabet for b in alphabet], getattr(sub, "gap", "nogap")))
        if sub is None and rng.random() < 0.5:
            res = call(alignment.needleman_wunsch, s1, s2)
        else:
            res = call(alignment.needleman_wunsch, s1, s2, substitution=sub)
        rec(nw_result(res))
        if res[0] == "ok":
            record_alignment(res[1][2], s1, s2, rng)


def part_exhaustive(rng):
    """All pairs over a 2-letter alphabet up to length 3, default + one matrix."""
    seqs = [""]
    for n in (1, 2, 3):
        seqs += ["".join(t) for t in itertools.product("AB", repeat=n)]
    subs = [None,
            alignment.make_substitution_fn({("A", "B"): -2, ("A", "A"): 3}, gap=0.5),
            alignment.make_substitution_fn({("A", "B"): 2, ("B", "B"): -1}, gap=2, opt="min")]
    for s1 in seqs:
        for s2 in seqs:
            for si, sub in enumerate(subs):
                res = call(alignment.needleman_wunsch, s1, s2, substitution=sub)
                rec(("ex", s1, s2, si, nw_result(res)))
                if res[0] == "ok":
                    for order in ORDERS:
                        rec(call(alignment.best_alignment, res[1][2], s1, s2, order=order))


def part_options_nw(rng):
    """needleman_wunsch with window / max_dist / max_step / max_length_diff / psi."""
    for it in range(700):
        alphabet = rng.choice(ALPHABETS)
        maxlen = rng.choice([1, 2, 4, 7, 10])
        s1 = rand_seq(rng, alphabet, maxlen)
        s2 = rand_seq(rng, alphabet, maxlen)
        sub, desc = rand_substitution(rng, alphabet)
        kw = {}
        if rng.random() < 0.5:
            kw["window"] = rng.choice([None, 1, 2, 3, 5, 20])
        if rng.random() < 0.4:
            kw["max_dist"] = rng.choice([None, 0, 0.5, 1, 2, 4, 100, -1, -3])
        if rng.random() < 0.4:
            kw["max_step"] = rng.choice([None, 0, 0.5, 1, 1.5, 2, 10])
        if rng.random() < 0.3:
            kw["max_length_diff"] = rng.choice([None, 0, 1, 2, 5])
        if rng.random() < 0.3:
            kw["psi"] = rng.choice([None, 0, 1, 2])
        rec(("nwopt", s1, s2, desc, sorted(kw.items(), key=lambda t: t[0])))
        res = call(alignment.needleman_wunsch, s1, s2, substitution=sub, **kw)
        rec(nw_result(res))
        if res[0] == "ok" and res[1][2] is not None:
            paths = res[1][2]
            order = rng.choice(ORDERS)
            rec(("ba", order, call(alignment.best_alignment, paths, s1, s2, order=order)))
            rec(("ba", None, call(alignment.best_alignment, paths, s1, s2)))


def dp_result(res):
    if res[0] != "ok":
        return res
    d, scores, paths = res[1]
    return ("ok", val(d), arr(scores), arr(paths))


def part_dp_direct(rng):
    """dp() called directly with numeric and symbolic cost functions."""
    def fn_sq(a, b):
        return (a - b) ** 2, (a - b) ** 2

    def fn_abs_indel(a, b):
        return abs(a - b), 1.25

    def fn_sym(a, b):
        return (0 if a == b else 2), 1

    def fn_sym_neg(a, b):
        return (-2 if a == b else 1), 0.5

    borders = [None,
               lambda ri, ci: ri + ci,
               lambda ri, ci: 0.5 * (ri + ci),
               alignment._needleman_wunsch_border,
               lambda ri, ci: 0]
    for it in range(900):
        numeric = rng.random() < 0.5
        maxlen = rng.choice([0, 1, 2, 3, 6, 9])
        if numeric:
            n1, n2 = rng.randint(0, maxlen), rng.randint(0, maxlen)
            if rng.random() < 0.5:
                s1 = [rng.randint(-3, 3) for _ in range(n1)]
                s2 = [rng.randint(-3, 3) for _ in range(n2)]
            else:
                s1 = np.array([rng.uniform(-2, 2) for _ in range(n1)])
                s2 = np.array([rng.uniform(-2, 2) for _ in range(n2)])
            fi = rng.randrange(2)
            fn = [fn_sq, fn_abs_indel][fi]
        else:
            s1 = rand_seq(rng, "ABC", maxlen)
            s2 = rand_seq(rng, "ABC", maxlen)
            fi = 2 + rng.randrange(3)
            fn = [None, None, fn_sym, fn_sym_neg, alignment._default_substitution_fn][fi]
        bi = rng.randrange(len(borders))
        kw = {}
        if rng.random() < 0.5:
            kw["window"] = rng.choice([None, 1, 2, 3, 4, 15])
        if rng.random() < 0.4:
            kw["max_dist"] = rng.choice([None, 0, 0.3, 1, 2.5, 6, 50, -1])
        if rng.random() < 0.4:
            kw["max_step"] = rng.choice([None, 0, 0.4, 1, 1.25, 3, 20])
        if rng.random() < 0.3:
            kw["max_length_diff"] = rng.choice([None, 0, 1, 3])
        if rng.random() < 0.4:
            kw["penalty"] = rng.choice([None, 0, 0.1, 1, 2.5])
        if rng.random() < 0.3:
            kw["psi"] = rng.choice([None, 0, 1, 2, 3])
        s1r = arr(s1) if isinstance(s1, np.ndarray) else s1
        s2r = arr(s2) if isinstance(s2, np.ndarray) else s2
        rec(("dp", s1r, s2r, fi, bi, sorted(kw.items(), key=lambda t: t[0])))
        if rng.random() < 0.5:
            res = call(dp, s1, s2, fn, borders[bi], **kw)
        else:
            res = call(dp, s1, s2, fn, border=borders[bi], **kw)
        rec(dp_result(res))
        if res[0] == "ok" and res[1][2] is not None:
            rec(("ba", call(alignment.best_alignment, res[1][2], order=rng.choice(ORDERS))))


def part_handmade_paths(rng):
    """best_alignment on arbitrary arrow matrices (every cell non-empty)."""
    chars = [Direction.UP_LEFT.value, Direction.UP.value, Direction.LEFT.value]
    for it in range(400):
        r, c = rng.randint(0, 6), rng.randint(0, 6)
        paths = np.full([r + 1, c + 1], "", dtype="<U4")
        for i in range(1, r + 1):
            for j in range(1, c + 1):
                k = rng.randint(1, 7)
                paths[i, j] = "".join(ch for b, ch in enumerate(chars) if k >> b & 1)
        s1 = [rng.choice("XYZ") for _ in range(r)]
        s2 = "".join(rng.choice("XYZ") for _ in range(c))
        rec(("hp", arr(paths), s1, s2))
        for order in ORDERS:
            rec(call(alignment.best_alignment, paths, s1, s2, gap=".", order=order))
        rec(call(alignment.best_alignment, paths, s1, s2, order=[2]))
        rec(call(alignment.best_alignment, paths, s1, s2, order=[1, 0]))


def part_fixed():
    rec(alignment._default_substitution_fn("A", "A"))
    rec(alignment._default_substitution_fn("A", "C"))
    rec([alignment._needleman_wunsch_border(i, j) for i in range(4) for j in range(4)])
    s1, s2 = "GATTACA", "GCATGCU"
    res = call(alignment.needleman_wunsch, s1, s2)
    rec(nw_result(res))
    rec(call(alignment.best_alignment, res[1][2], s1, s2))
    rec(repr(res[1][1]))
    rec(repr(res[1][2]))


def main():
    part_fixed()
    part_exhaustive(random.Random(170))
    part_plain_nw(random.Random(171))
    part_options_nw(random.Random(172))
    part_dp_direct(random.Random(173))
    part_handmade_paths(random.Random(174))
    sys.stderr.write("records: %d\n" % count)
    print("DIGEST " + h.hexdigest())
    return 0


if __name__ == "__main__":
    sys.exit(main())
