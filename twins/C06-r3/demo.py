"""Randomised bit-for-bit comparison for property C06 (distance matrix / blocks).

Calls the distance-matrix routines of both engines through the public API
(plus the small helpers they rely on and the exported C length function) on a
broad set of seeded random inputs and prints one DIGEST line.
"""
import ctypes
import hashlib
import itertools
import random
import struct
import sys
import array

import numpy as np

from dtaidistance import dtw, dtw_ndim, dtw_cc

SEED = 60601
results = []


def bits(x):
    """Exact (bit-level) representation of a result."""
    if isinstance(x, np.ndarray):
        a = np.ascontiguousarray(x)
        return ('nd', str(a.dtype), a.shape, a.tobytes().hex())
    if isinstance(x, array.array):
        return ('arr', x.typecode, len(x), x.tobytes().hex())
    if isinstance(x, float):
        return ('f', struct.pack('<d', x).hex())
    if isinstance(x, (list, tuple)):
        return (type(x).__name__, [bits(v) for v in x])
    if isinstance(x, (np.floating,)):
        return ('npf', struct.pack('<d', float(x)).hex())
    if isinstance(x, (np.integer,)):
        return ('npi', int(x))
    return ('o', repr(x))


def record(tag, fn, *args, **kwargs):
    try:
        r = fn(*args, **kwargs)
        results.append((tag, 'ok', bits(r)))
    except Exception as e:  # the kind and text of an error are part of behaviour
        results.append((tag, 'exc', type(e).__name__, str(e)))


def all_blocks(n):
    """All ((rb,re),(cb,ce)) with 0<=rb<re<=n, 0<=cb<ce<=n."""
    out = []
    for rb in range(0, n):
        for re in range(rb + 1, n + 1):
            for cb in range(0, n):
                for ce in range(cb + 1, n + 1):
                    out.append(((rb, re), (cb, ce)))
    return out


def with_flags(b):
    return [b, (b[0], b[1], True), (b[0], b[1], False)]


def make_collection(rng, n, form, ndim):
    """form: 'list' (unequal lengths), 'listeq', 'matrix'."""
    if ndim == 1:
        if form == 'list':
            return [np.array([rng.uniform(-3, 3) for _ in range(rng.randint(1, 9))], dtype=np.double)
                    for _ in range(n)]
        L = rng.randint(1, 8)
        rows = [[rng.uniform(-3, 3) for _ in range(L)] for _ in range(n)]
        if form == 'listeq':
            return [np.array(r, dtype=np.double) for r in rows]
        return np.array(rows, dtype=np.double).reshape(n, L)
    else:
        if form == 'list':
            return [np.array([[rng.uniform(-3, 3) for _ in range(ndim)] for _ in range(rng.randint(1, 7))],
                             dtype=np.double) for _ in range(n)]
        L = rng.randint(1, 6)
        rows = [[[rng.uniform(-3, 3) for _ in range(ndim)] for _ in range(L)] for _ in range(n)]
        if form == 'listeq':
            return [np.array(r, dtype=np.double) for r in rows]
        return np.array(rows, dtype=np.double).reshape(n, L, ndim)


def random_settings(rng):
    choices = [
        {},
        {'window': rng.randint(1, 5)},
        {'max_dist': rng.uniform(0.5, 6.0)},
        {'max_dist': rng.uniform(0.5, 6.0), 'use_pruning': False},
        {'use_pruning': True},
        {'psi': rng.randint(0, 2)},
        {'penalty': rng.uniform(0.0, 1.0)},
        {'max_step': rng.uniform(0.5, 4.0)},
        {'max_length_diff': rng.randint(0, 3)},
        {'window': rng.randint(1, 4), 'penalty': rng.uniform(0, 1), 'psi': rng.randint(0, 2)},
        {'window': rng.randint(2, 6), 'max_step': rng.uniform(1, 4), 'max_length_diff': rng.randint(1, 4)},
        {'inner_dist': 'euclidean'},
    ]
    return rng.choice(choices)


# --------------------------------------------------------------------------
# 1. The Python-side helpers, exhaustively for n = 0..6 and every block
# --------------------------------------------------------------------------
def part_helpers():
    for n in range(0, 7):
        for blk in [None, 0]:
            record(('len', n, blk), dtw._distance_matrix_length, blk, n)
            record(('idxs', n, blk), dtw._distance_matrix_idxs, blk, n)
            record(('cb', n, blk), dtw._complete_block, blk, n)
        for b in all_blocks(n):
            for blk in with_flags(b):
                record(('len', n, blk), dtw._distance_matrix_length, blk, n)
                record(('idxs', n, blk), dtw._distance_matrix_idxs, blk, n)
                record(('cb', n, blk), dtw._complete_block, blk, n)
                record(('clen', n, blk), c_length_via_cython, blk, n)
    # list form of a block, blocks selecting nothing / reaching past the end
    odd = [[[0, 2], [1, 3]], ((0, 2), (1, 9)), ((2, 9), (0, 3)), ((3, 3), (0, 2)), ((0, 2), (2, 2)),
           ((0, 9), (0, 9), False), ((1, 2), (0, 1)), ((4, 5), (0, 3)), ((0, 3), (1, 3), None), ((0, 3), (1, 3), 0)]
    for blk in odd:
        for n in (3, 5):
            record(('len-odd', n, repr(blk)), dtw._distance_matrix_length, blk, n)
            record(('idxs-odd', n, repr(blk)), dtw._distance_matrix_idxs, blk, n)
            record(('cb-odd', n, repr(blk)), dtw._complete_block, blk, n)
    # the same helpers without numpy (the code has a pure-list path)
    saved = dtw.np
    try:
        dtw.np = None
        for n in range(0, 5):
            record(('idxs-nonp', n, None), dtw._distance_matrix_idxs, None, n)
            for b in all_blocks(n):
                for blk in with_flags(b):
                    record(('idxs-nonp', n, blk), dtw._distance_matrix_idxs, blk, n)
    finally:
        dtw.np = saved
    # condensed index helper
    for n in range(1, 9):
        for a in range(n):
            for b in range(n):
                record(('dai', n, a, b), dtw.distance_array_index, a, b, n)


def c_length_via_cython(blk, n):
    triu = not (len(blk) > 2 and blk[2] is False)
    b = dtw_cc.DTWBlock(rb=blk[0][0], re=blk[0][1], cb=blk[1][0], ce=blk[1][1], triu=triu)
    return dtw_cc.distance_matrix_length(b, n)


# --------------------------------------------------------------------------
# 2. The exported C length function (also for nb_series_r != nb_series_c)
# --------------------------------------------------------------------------
class CBlock(ctypes.Structure):
    _fields_ = [('rb', ctypes.c_ssize_t), ('re', ctypes.c_ssize_t),
                ('cb', ctypes.c_ssize_t), ('ce', ctypes.c_ssize_t),
                ('triu', ctypes.c_bool)]


def part_c_length():
    lib = ctypes.CDLL(dtw_cc.__file__)
    f = lib.dtw_distances_length
    f.restype = ctypes.c_ssize_t
    f.argtypes = [ctypes.POINTER(CBlock), ctypes.c_ssize_t, ctypes.c_ssize_t]
    rng = random.Random(SEED + 1)
    sizes = list(range(1, 12)) + [100, 101, 4097, 65536, 2 ** 31 - 1, 2 ** 31, 3037000499, 3037000500]
    for nr in sizes:
        for nc in sizes:
            results.append(('cl-null', nr, nc, f(None, nr, nc)))
            for triu in (True, False):
                for (re, ce) in ((0, 0), (0, 3), (2, 0)):
                    if re > nr or ce > nc:
                        continue
                    b = CBlock(0, re, 0, ce, triu)
                    results.append(('cl-noblock', nr, nc, triu, re, ce, f(ctypes.byref(b), nr, nc),
                                    (b.rb, b.re, b.cb, b.ce, b.triu)))
    for _ in range(3000):
        nr = rng.randint(1, 14)
        nc = rng.randint(1, 14)
        rb = rng.randint(0, nr - 1)
        re = rng.randint(rb + 1, nr)
        cb = rng.randint(0, nc - 1)
        ce = rng.randint(cb + 1, nc)
        triu = rng.random() < 0.5
        b = CBlock(rb, re, cb, ce, triu)
        results.append(('cl-block', nr, nc, rb, re, cb, ce, triu, f(ctypes.byref(b), nr, nc),
                        (b.rb, b.re, b.cb, b.ce, b.triu)))


# --------------------------------------------------------------------------
# 3. Distance matrices through the public API, both engines
# --------------------------------------------------------------------------
def run_matrix(tag, s, ndim, blk, st):
    """All output forms x {Python serial, C serial} for one input."""
    for use_c in (False, True):
        for compact, only_triu in ((True, False), (False, False), (False, True)):
            t = (tag, 'c' if use_c else 'py', compact, only_triu)
            if ndim == 1:
                record(t, dtw.distance_matrix, s, block=blk, compact=compact, parallel=False,
                       use_c=use_c, only_triu=only_triu, **st)
            else:
                record(t, dtw_ndim.distance_matrix, s, block=blk, compact=compact, parallel=False,
                       use_c=use_c, only_triu=only_triu, **st)
    # the Cython wrappers called directly (this also reaches the C matrix / ndim-matrix loops)
    if ndim == 1:
        record((tag, 'cc'), dtw_cc.distance_matrix, s, block=blk, **st)
    else:
        record((tag, 'ccnd'), dtw_cc.distance_matrix_ndim, s, ndim, block=blk, **st)


def part_matrices():
    rng = random.Random(SEED + 2)
    case = 0
    # (a) every block, small collections, all forms, default settings
    for n in (1, 2, 3, 4):
        for form in ('list', 'listeq', 'matrix'):
            s = make_collection(rng, n, form, 1)
            run_matrix(('a', n, form, None), s, 1, None, {})
            for b in all_blocks(n):
                for blk in with_flags(b):
                    run_matrix(('a', n, form, blk), s, 1, blk, {})
    # (b) random larger collections, random blocks and settings, ndim 1..3
    for _ in range(260):
        case += 1
        n = rng.randint(1, 7)
        ndim = rng.choice((1, 1, 2, 3))
        form = rng.choice(('list', 'listeq', 'matrix'))
        s = make_collection(rng, n, form, ndim)
        st = dict(random_settings(rng))
        r = rng.random()
        if r < 0.2:
            blk = None
        else:
            rb = rng.randint(0, n - 1)
            re = rng.randint(rb + 1, n)
            cb = rng.randint(0, n - 1)
            ce = rng.randint(cb + 1, n)
            blk = ((rb, re), (cb, ce))
            q = rng.random()
            if q < 0.3:
                blk = (blk[0], blk[1], False)
            elif q < 0.45:
                blk = (blk[0], blk[1], True)
        run_matrix(('b', case, n, ndim, form, repr(blk), repr(sorted(st.items()))), s, ndim, blk, st)
    # (c) the *_fast entry points (serial) and the python loop called directly
    for _ in range(60):
        case += 1
        n = rng.randint(2, 6)
        s = make_collection(rng, n, rng.choice(('list', 'matrix')), 1)
        rb = rng.randint(0, n - 1); re = rng.randint(rb + 1, n)
        cb = rng.randint(0, n - 1); ce = rng.randint(cb + 1, n)
        blk = rng.choice([None, ((rb, re), (cb, ce)), ((rb, re), (cb, ce), False)])
        compact = True if (blk is not None and len(blk) > 2) else rng.choice((True, False))
        record(('c-fast', case), dtw.distance_matrix_fast, s, block=blk, compact=compact, parallel=False,
               window=rng.choice((None, 2, 3)))
        record(('c-pyloop', case), dtw.distance_matrix_python, s, block=blk)
        record(('c-cc', case), dtw_cc.distance_matrix, s, block=blk)
        record(('c-cc0', case), dtw_cc.distance_matrix, s, block=0)
        s3 = make_collection(rng, n, rng.choice(('list', 'matrix')), 2)
        record(('c-fastnd', case), dtw_ndim.distance_matrix_fast, s3, block=blk, compact=compact, parallel=False)
        record(('c-ccnd', case), dtw_cc.distance_matrix_ndim, s3, 2, block=blk)
        s2 = make_collection(rng, n, 'matrix', 1)
        record(('c-ccnd-2d', case), dtw_cc.distance_matrix_ndim, s2, 1, block=blk)
    # (c2) unusual spellings of the block argument given to the Cython wrappers directly
    s = make_collection(rng, 4, 'list', 1)
    sm = make_collection(rng, 4, 'matrix', 1)
    s3 = make_collection(rng, 4, 'matrix', 2)
    odd = [0, 0.0, None, [[0, 2], [1, 3]], ((0, 2),), ((0,), (1, 2)), ((0, 2), (1,)), ((0, 2), (1, 3), None),
           ((0, 2), (1, 3), 0), ((0, 2, 7), (1, 3, 9)), ((0, 2), (1, 3), False, 5), ((0, 9), (1, 3)),
           ((0, 2), (1, 9)), ((3, 2), (0, 3)), ((0, 'x'), (1, 3)), ((0.0, 2.0), (1.0, 3.0)), 'ab', 5, ()]
    for blk in odd:
        record(('c2-cc', repr(blk)), dtw_cc.distance_matrix, s, block=blk)
        record(('c2-ccm', repr(blk)), dtw_cc.distance_matrix, sm, block=blk, window=2)
        record(('c2-ccnd', repr(blk)), dtw_cc.distance_matrix_ndim, s3, 2, block=blk)
        record(('c2-ccbad', repr(blk)), dtw_cc.distance_matrix, s, block=blk, nosuchsetting=1)
        record(('c2-nolen', repr(blk)), dtw_cc.distance_matrix, 12, block=blk)
        record(('c2-nolen-nd', repr(blk)), dtw_cc.distance_matrix_ndim, 12, 2, block=blk)
    # (d) blocks that select no pair / degenerate
    s = make_collection(rng, 5, 'list', 1)
    for blk in [((2, 2), (0, 3)), ((0, 3), (4, 4)), ((3, 2), (0, 3)), ((4, 5), (0, 3)), ((3, 5), (1, 4)),
                ((0, 5), (0, 5)), ((0, 5), (0, 5), False), ((4, 5), (4, 5)), ((0, 2), (1, 3), False)]:
        for use_c in (False, True):
            for compact in (True, False):
                record(('d', repr(blk), use_c, compact), dtw.distance_matrix, s, block=blk,
                       compact=compact, use_c=use_c, parallel=False)
    # (e) square conversion called directly
    for n in range(1, 6):
        for b in [None] + all_blocks(n)[::3]:
            ln = dtw._distance_matrix_length(b, n)
            d = array.array('d', [rng.uniform(0, 9) for _ in range(ln)])
            for ot in (False, True):
                record(('e', n, b, ot), dtw.distances_array_to_matrix, d, n, block=b, only_triu=ot)


def main():
    part_helpers()
    part_c_length()
    part_matrices()
    h = hashlib.sha256(repr(results).encode('utf-8')).hexdigest()
    sys.stdout.flush()
    print('NRESULTS', len(results), 'errors', sum(1 for r in results if len(r) > 1 and r[1] == 'exc'))
    print('DIGEST', h)
    sys.stdout.flush()
    return 0


if __name__ == '__main__':
    sys.exit(main())
