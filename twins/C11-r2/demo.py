"""Randomised bit-for-bit comparison for property C11 (multivariate DTW / ED upper bound).

Calls the n-dimensional public API (Python and C engine) on seeded random inputs and
option combinations and prints a sha256 digest of the repr of all results.
"""
import hashlib
import itertools
import struct
import sys

import numpy as np

from dtaidistance import dtw, dtw_ndim, ed, innerdistance
from dtaidistance import ed_cc

results = []


def bits(x):
    """Exact representation of a float / array result."""
    if x is None:
        return None
    if isinstance(x, (list, tuple)):
        return [bits(v) for v in x]
    a = np.asarray(x, dtype=np.double)
    if a.ndim == 0:
        return struct.pack('<d', float(a)).hex()
    return (a.shape, hashlib.sha256(np.ascontiguousarray(a).tobytes()).hexdigest())


def rec(tag, fn):
    try:
        r = fn()
        results.append((tag, bits(r)))
    except Exception as exc:  # exceptions are part of the observable behaviour
        results.append((tag, 'EXC', type(exc).__name__, str(exc)[:80]))


def rec_raw(tag, fn):
    try:
        results.append((tag, repr(fn())))
    except Exception as exc:
        results.append((tag, 'EXC', type(exc).__name__, str(exc)[:80]))


rng = np.random.RandomState(20240911)
INNER = ['squared euclidean', 'euclidean']


def rand_series(length, d):
    kind = rng.randint(0, 3)
    if kind == 0:
        return rng.randn(length, d)
    if kind == 1:
        return np.round(rng.randn(length, d) * 3) / 2.0   # many ties
    return np.cumsum(rng.randn(length, d), axis=0)


def rand_opts(min_len):
    # psi is kept below the shortest series length (larger values are outside the
    # domain the C kernels are written for)
    o = {}
    if rng.rand() < 0.5:
        o['window'] = int(rng.randint(1, 8))
    if rng.rand() < 0.3:
        o['max_dist'] = float(rng.uniform(0.5, 6.0))
    if rng.rand() < 0.3:
        o['max_step'] = float(rng.uniform(0.5, 4.0))
    if rng.rand() < 0.3:
        o['max_length_diff'] = int(rng.randint(0, 5))
    if rng.rand() < 0.3:
        o['penalty'] = float(rng.uniform(0.0, 2.0))
    if rng.rand() < 0.3:
        o['psi'] = max(0, min(int(rng.randint(0, 4)), min_len - 1))
    if o.get('psi') and 'window' in o:
        # psi relaxation together with a narrow window is left out: the C distance kernel
        # gives run-to-run varying values there on the unmodified library
        del o['window']
    return o


# ---------------------------------------------------------------- pairs
case = 0
for d in (1, 2, 3, 4):
    for rep in range(45):
        l1 = int(rng.randint(1, 14))
        l2 = int(rng.randint(1, 14))
        if rep % 5 == 0:
            l2 = l1
        s1 = rand_series(l1, d)
        s2 = rand_series(l2, d)
        for inner in INNER:
            case += 1
            tag = ('pair', d, rep, l1, l2, inner)
            # Euclidean upper bound, all entry points
            rec(tag + ('ub_py',), lambda: dtw_ndim.ub_euclidean(s1, s2, inner_dist=inner))
            rec(tag + ('ub_dtw',), lambda: dtw.ub_euclidean(s1, s2, inner_dist=inner, use_ndim=True))
            rec(tag + ('ed_py',), lambda: ed.distance(s1, s2, inner_dist=inner, use_ndim=True))
            rec(tag + ('ed_py_lists',), lambda: ed.distance([r for r in s1], [r for r in s2],
                                                           inner_dist=inner, use_ndim=True))
            rec(tag + ('ed_cc',), lambda: ed_cc.distance_ndim(s1, s2, innerdistance.to_c(inner)))
            if d == 1:
                rec(tag + ('ed_flat',), lambda: ed.distance(s1[:, 0], s2[:, 0], inner_dist=inner))
                rec(tag + ('ed_fast_flat',), lambda: ed.distance_fast(s1[:, 0].copy(), s2[:, 0].copy(),
                                                                     inner_dist=inner))
            for k in range(3):
                o = rand_opts(min(l1, l2)) if k else {}
                otag = tag + (tuple(sorted(o.items())),)
                for prune, only_ub in ((False, False), (True, False), (False, True), (True, True)):
                    ptag = otag + (prune, only_ub)
                    rec(ptag + ('dist_py',),
                        lambda: dtw_ndim.distance(s1, s2, use_pruning=prune, only_ub=only_ub,
                                                  inner_dist=inner, **o))
                    rec(ptag + ('dist_c',),
                        lambda: dtw_ndim.distance(s1, s2, use_c=True, use_pruning=prune, only_ub=only_ub,
                                                  inner_dist=inner, **o))
                    rec(ptag + ('dist_fast',),
                        lambda: dtw_ndim.distance_fast(s1, s2, use_pruning=prune, only_ub=only_ub,
                                                       inner_dist=inner, **o))
                    rec(ptag + ('dist_dtw_fast',),
                        lambda: dtw.distance_fast(s1, s2, use_pruning=prune, only_ub=only_ub,
                                                  inner_dist=inner, use_ndim=True, **o))
                if d == 1:
                    rec(otag + ('dist_flat_py',),
                        lambda: dtw.distance(s1[:, 0], s2[:, 0], inner_dist=inner, **o))
                    rec(otag + ('dist_flat_fast',),
                        lambda: dtw.distance_fast(s1[:, 0].copy(), s2[:, 0].copy(), inner_dist=inner, **o))
                    rec(otag + ('dist_flat_fast_prune',),
                        lambda: dtw.distance_fast(s1[:, 0].copy(), s2[:, 0].copy(), inner_dist=inner,
                                                  use_pruning=True, **o))
                for prune in (False, True):
                    rec(otag + ('wps_py', prune),
                        lambda: dtw_ndim.warping_paths(s1, s2, use_pruning=prune, inner_dist=inner, **o))
                    rec(otag + ('wps_c', prune),
                        lambda: dtw_ndim.warping_paths_fast(s1, s2, use_pruning=prune, inner_dist=inner, **o))
                rec_raw(otag + ('path_py',),
                        lambda: dtw_ndim.warping_path(s1, s2, inner_dist=inner, **o))
                rec_raw(otag + ('path_c',),
                        lambda: dtw_ndim.warping_path(s1, s2, use_c=True, inner_dist=inner, **o))
                rec_raw(otag + ('path_prune',),
                        lambda: dtw_ndim.warping_path(s1, s2, use_pruning=True, include_distance=True,
                                                      inner_dist=inner, **o))

# ---------------------------------------------------------------- distance matrices
for d in (1, 2, 3, 4):
    for rep in range(8):
        n = int(rng.randint(2, 7))
        if rep % 2 == 0:
            length = int(rng.randint(2, 10))
            arr3 = np.stack([rand_series(length, d) for _ in range(n)])
            containers = [('3d', arr3), ('list', [arr3[i].copy() for i in range(n)])]
        else:
            lst = [rand_series(int(rng.randint(1, 11)), d) for _ in range(n)]
            containers = [('list', lst)]
        min_len = min(len(x) for x in containers[0][1])
        for inner in INNER:
            for k in range(3):
                o = rand_opts(min_len) if k else {}
                for cname, cont in containers:
                    tag = ('dm', d, rep, n, inner, tuple(sorted(o.items())), cname)
                    for prune in (False, True):
                        rec(tag + ('py', prune),
                            lambda: dtw_ndim.distance_matrix(cont, ndim=d, use_pruning=prune,
                                                             inner_dist=inner, **o))
                        rec(tag + ('c', prune),
                            lambda: dtw_ndim.distance_matrix(cont, ndim=d, use_c=True, use_pruning=prune,
                                                             inner_dist=inner, **o))
                    rec(tag + ('py_nondim',),
                        lambda: dtw_ndim.distance_matrix(cont, inner_dist=inner, **o))
                    rec(tag + ('fast_seq',),
                        lambda: dtw_ndim.distance_matrix_fast(cont, ndim=d, parallel=False,
                                                              inner_dist=inner, **o))
                    rec(tag + ('fast_par',),
                        lambda: dtw_ndim.distance_matrix_fast(cont, ndim=d, parallel=True,
                                                              inner_dist=inner, **o))
                    rec(tag + ('fast_compact',),
                        lambda: dtw_ndim.distance_matrix_fast(cont, ndim=d, parallel=False, compact=True,
                                                              inner_dist=inner, **o))
                    if n >= 3:
                        blk = ((0, n - 1), (1, n))
                        rec(tag + ('py_block',),
                            lambda: dtw_ndim.distance_matrix(cont, ndim=d, block=blk,
                                                             inner_dist=inner, **o))
                        rec(tag + ('c_block',),
                            lambda: dtw_ndim.distance_matrix_fast(cont, ndim=d, block=blk, parallel=False,
                                                                  inner_dist=inner, **o))

# ---------------------------------------------------------------- psi together with a window (Python engine only)
for d in (1, 2, 3, 4):
    for rep in range(12):
        l1 = int(rng.randint(3, 12))
        l2 = int(rng.randint(3, 12))
        s1 = rand_series(l1, d)
        s2 = rand_series(l2, d)
        for inner in INNER:
            o = {'psi': int(rng.randint(1, min(l1, l2))), 'window': int(rng.randint(1, 6))}
            if rng.rand() < 0.4:
                o['penalty'] = float(rng.uniform(0.0, 2.0))
            tag = ('psiwin', d, rep, l1, l2, inner, tuple(sorted(o.items())))
            for prune in (False, True):
                rec(tag + ('dist_py', prune),
                    lambda: dtw_ndim.distance(s1, s2, use_pruning=prune, inner_dist=inner, **o))
                rec(tag + ('wps_py', prune),
                    lambda: dtw_ndim.warping_paths(s1, s2, use_pruning=prune, inner_dist=inner, **o))
            rec_raw(tag + ('path_py',), lambda: dtw_ndim.warping_path(s1, s2, inner_dist=inner, **o))

# ---------------------------------------------------------------- C Euclidean bound, longer series
for d in (1, 2, 3, 4):
    for rep in range(60):
        l1 = int(rng.randint(1, 70))
        l2 = l1 if rep % 6 == 0 else int(rng.randint(1, 70))
        s1 = rand_series(l1, d) * (10.0 ** int(rng.randint(-3, 4)))
        s2 = rand_series(l2, d)
        for inner in INNER:
            tag = ('edlong', d, rep, l1, l2, inner)
            rec(tag + ('ed_cc',), lambda: ed_cc.distance_ndim(s1, s2, innerdistance.to_c(inner)))
            rec(tag + ('ed_cc_swapped',), lambda: ed_cc.distance_ndim(s2, s1, innerdistance.to_c(inner)))
            rec(tag + ('ed_py',), lambda: ed.distance(s1, s2, inner_dist=inner, use_ndim=True))
            rec(tag + ('only_ub_c',), lambda: dtw_ndim.distance_fast(s1, s2, only_ub=True, inner_dist=inner))
            rec(tag + ('prune_c',), lambda: dtw_ndim.distance_fast(s1, s2, use_pruning=True, inner_dist=inner))
            rec(tag + ('prune_wps_c',), lambda: dtw_ndim.warping_paths_fast(s1, s2, use_pruning=True,
                                                                           inner_dist=inner))

h = hashlib.sha256(repr(results).encode('utf-8')).hexdigest()
n_exc = sum(1 for r in results if len(r) > 2 and r[1] == 'EXC')
sys.stderr.write('results: %d, exceptions: %d\n' % (len(results), n_exc))
print('DIGEST ' + h)
sys.exit(0)
