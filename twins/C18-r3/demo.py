#!/usr/bin/env python
"""Randomised bit-for-bit comparison for property C18 (affinity / local concurrences).

Calls, through the public API only,
  A. dtw.warping_paths_affinity (Python), dtw.warping_paths_affinity_fast (C, full and compact)
  B. local_concurrences(...).kbest_matches / kbest_matches_store call sequences
     (restart / keep, negative / zero / positive buffer, Python, C-full and C-compact),
     LCMatch.path, wp_slice
  C. the compact-matrix primitives dtw_cc.wps_negativize / wps_positivize /
     wps_negativize_value / wps_positivize_value / wps_max / best_path_compact_affinity
on seeded random inputs and prints `DIGEST <sha256>` over the repr of every result.
"""
import hashlib
import itertools
import random
import sys

import numpy as np
import numpy.ma as ma

from dtaidistance import dtw, dtw_cc
from dtaidistance.subsequence.localconcurrences import local_concurrences, LocalConcurrences

H = hashlib.sha256()
NRES = [0]
NEXC = {}


def arr(a):
    if isinstance(a, ma.MaskedArray):
        return ('ma', a.shape, np.ascontiguousarray(a.data).tobytes().hex(),
                np.ascontiguousarray(ma.getmaskarray(a)).tobytes().hex())
    a = np.ascontiguousarray(np.asarray(a, dtype=np.double))
    return ('nd', a.shape, a.tobytes().hex())


def flt(x):
    return float(x).hex() if x is not None else None


def record(tag, value):
    H.update(repr((tag, value)).encode('utf8'))
    NRES[0] += 1
    if isinstance(value, tuple) and len(value) == 3 and value[0] == 'EXC':
        key = (tag[0], value[1], value[2][:60])
        NEXC[key] = NEXC.get(key, 0) + 1


def make_series(rng, n, kind):
    if kind == 0:
        s = rng.normal(size=n)
    elif kind == 1:
        s = np.sin(np.linspace(0, rng.uniform(2, 12), n)) + 0.1 * rng.normal(size=n)
    elif kind == 2:
        s = np.round(rng.uniform(-2, 2, size=n))  # many ties / exact repeats
    else:
        base = rng.normal(size=max(2, n // 3))
        s = np.tile(base, 4)[:n] + 0.05 * rng.normal(size=n)  # repeated motif
    return np.ascontiguousarray(s, dtype=np.double)


def affinity_params(rng):
    gamma = [1, 0.5, 2.0, 0.1][rng.integers(4)]
    tau = [0, 0.2, 0.5, 0.9][rng.integers(4)]
    delta = [0, -0.1, -0.5, -2.0][rng.integers(4)]
    delta_factor = [1, 0.9, 0.5][rng.integers(3)]
    return dict(gamma=gamma, tau=tau, delta=delta, delta_factor=delta_factor)


def windows_for(rng, l1, l2):
    return [None, 1, 2, int(rng.integers(1, max(l1, l2) + 2)), max(l1, l2) + 3]


# --------------------------------------------------------------------------------------
# A. the matrices
# --------------------------------------------------------------------------------------
def section_a():
    rng = np.random.default_rng(1801)
    for it in range(70):
        l1 = int(rng.integers(1, 22))
        l2 = int(rng.integers(1, 22))
        if it % 5 == 0:
            l2 = l1
        s1 = make_series(rng, l1, it % 4)
        s2 = s1 if it % 7 == 0 and l1 == l2 else make_series(rng, l2, (it + 1) % 4)
        prm = affinity_params(rng)
        wins = windows_for(rng, l1, l2)
        window = wins[it % len(wins)]
        for penalty, only_triu in itertools.product([None, 0, 0.05, 0.7], [False, True]):
            kw = dict(window=window, only_triu=only_triu, penalty=penalty, **prm)
            tag = ('A', it, l1, l2, window, only_triu, penalty, tuple(sorted(prm.items())))
            try:
                d, m = dtw.warping_paths_affinity(s1, s2, **kw)
                record(tag + ('py',), (flt(d), arr(m)))
            except Exception as exc:  # pragma: no cover
                record(tag + ('py',), ('EXC', type(exc).__name__, str(exc)))
            try:
                d, m = dtw.warping_paths_affinity(s1, s2, use_c=True, **kw)
                record(tag + ('py-use_c',), (flt(d), arr(m)))
            except Exception as exc:  # pragma: no cover
                record(tag + ('py-use_c',), ('EXC', type(exc).__name__, str(exc)))
            for compact in (False, True):
                try:
                    d, m = dtw.warping_paths_affinity_fast(s1, s2, compact=compact, **kw)
                    record(tag + ('c', compact), (flt(d), arr(m)))
                except Exception as exc:  # pragma: no cover
                    record(tag + ('c', compact), ('EXC', type(exc).__name__, str(exc)))
        # psi relaxation and psi_neg on the full matrices (Python and C wrapper)
        if it % 3 == 0 and min(l1, l2) > 3:
            for psi, psi_neg in itertools.product([1, 2, (1, 0, 2, 1)], [True, False]):
                kw = dict(window=window, penalty=0.1, psi=psi, psi_neg=psi_neg, **prm)
                tag = ('A-psi', it, psi, psi_neg)
                try:
                    d, m = dtw.warping_paths_affinity(s1, s2, **kw)
                    record(tag + ('py',), (flt(d), arr(m)))
                except Exception as exc:  # pragma: no cover
                    record(tag + ('py',), ('EXC', type(exc).__name__, str(exc)))
                try:
                    d, m = dtw.warping_paths_affinity_fast(s1, s2, **kw)
                    record(tag + ('c',), (flt(d), arr(m)))
                except Exception as exc:  # pragma: no cover
                    record(tag + ('c',), ('EXC', type(exc).__name__, str(exc)))


# --------------------------------------------------------------------------------------
# B. histories of kbest_matches calls
# --------------------------------------------------------------------------------------
def lc_state(lc):
    if lc.compact:
        full = lc.wp_slice()
        return ('compact', arr(lc._wp), arr(full))
    return ('full', arr(lc._wp))


def run_history(lc, script, tag):
    for step, (op, k, minlen, buffer, flag) in enumerate(script):
        try:
            if op == 'iter':
                out = []
                for m in itertools.islice(lc.kbest_matches(k=k, minlen=minlen, buffer=buffer, restart=flag), 60):
                    out.append((int(m.row), int(m.col), [(int(a), int(b)) for a, b in m.path]))
            elif op == 'store':
                ms = lc.kbest_matches_store(k=k, minlen=minlen, buffer=buffer, restart=flag[0], keep=flag[1])
                out = [(int(m.row), int(m.col), [(int(a), int(b)) for a, b in m.path]) for m in ms]
                out.append(('covered', [list(map(int, np.flatnonzero(c))) for c in ms.covered()]))
            elif op == 'partial':
                # abandon the generator after the first match (state stays as it is)
                gen = lc.kbest_matches(k=k, minlen=minlen, buffer=buffer, restart=flag)
                m = next(gen, None)
                out = None if m is None else (int(m.row), int(m.col), [(int(a), int(b)) for a, b in m.path])
                gen.close()
            elif op == 'reset':
                lc._reset_wp_mask()
                out = 'reset'
            elif op == 'slice':
                rb, re, cb, ce = k
                out = arr(np.array(lc.wp_slice(rb, re, cb, ce, positivize=flag), dtype=np.double))
            else:
                raise ValueError(op)
            record(tag + (step, op, k, minlen, buffer, flag), (out, lc_state(lc)))
        except Exception as exc:  # pragma: no cover
            record(tag + (step, op, k, minlen, buffer, flag), ('EXC', type(exc).__name__, str(exc)))


def section_b():
    rng = np.random.default_rng(1802)
    pyr = random.Random(1802)
    for it in range(60):
        l1 = int(rng.integers(4, 26))
        l2 = int(rng.integers(4, 26))
        selfcmp = it % 3 == 0
        s1 = make_series(rng, l1, (it // 2) % 4)
        s2 = None if selfcmp else make_series(rng, l2, (it // 3) % 4)
        if selfcmp:
            l2 = l1
        prm = affinity_params(rng)
        if it % 2 == 0:
            prm['tau'] = max(prm['tau'], 0.2)
            prm['delta'] = min(prm['delta'], -0.1)
        window = [None, 2, 3, int(rng.integers(1, max(l1, l2) + 1)), None][it % 5]
        penalty = [0, None, 0.05, 0.3, 0, 0.1, 0.02][it % 7]
        only_triu = [None, False, True][it % 3]
        if only_triu and not selfcmp and l1 > l2 and it % 4 != 3:
            # (the full-matrix mask for only_triu assumes l1 <= l2; keep most cases inside that domain)
            s1, s2 = s2, s1
            l1, l2 = l2, l1
        # a random history
        script = []
        for _ in range(pyr.randint(2, 5)):
            op = pyr.choice(['iter', 'iter', 'store', 'store', 'partial', 'reset', 'slice'])
            k = pyr.choice([1, 2, 3, 5, None])
            minlen = pyr.choice([1, 2, 2, 3, 4])
            buffer = pyr.choice([0, 0, -1, -1, 1, 2, 3])
            if op == 'store':
                flag = (pyr.random() < 0.5, pyr.random() < 0.5)
            elif op == 'slice':
                # Only complete slices: expanding a partial slice of the compact matrix is
                # not memory safe in the library (independent of the code under test).
                k = (None, None, None, None)
                flag = pyr.random() < 0.5
            else:
                flag = pyr.random() < 0.5
            script.append((op, k, minlen, buffer, flag))
        for use_c, compact in ((False, None), (True, False), (True, True), (True, None)):
            tag = ('B', it, l1, l2, selfcmp, window, penalty, only_triu, tuple(sorted(prm.items())), use_c, compact)
            try:
                lc = local_concurrences(s1, s2, only_triu=only_triu, penalty=penalty, window=window,
                                        use_c=use_c, compact=compact, **prm)
            except Exception as exc:  # pragma: no cover
                record(tag, ('EXC', type(exc).__name__, str(exc)))
                continue
            record(tag + ('aligned',), lc_state(lc))
            run_history(lc, script, tag)
        # estimated settings + align_fast
        if it % 6 == 0:
            for est in (0.33, 1.0):
                try:
                    lc = local_concurrences(s1, s1 if s2 is None else s2, estimate_settings=est, window=window,
                                            use_c=(it % 12 == 0))
                    ms = lc.kbest_matches_store(k=3, minlen=2, buffer=0)
                    record(('B-est', it, est), ([(int(m.row), int(m.col), [(int(a), int(b)) for a, b in m.path])
                                                 for m in ms], lc_state(lc), lc.settings()))
                except Exception as exc:  # pragma: no cover
                    record(('B-est', it, est), ('EXC', type(exc).__name__, str(exc)))


# --------------------------------------------------------------------------------------
# C. compact-matrix primitives
# --------------------------------------------------------------------------------------
def section_c():
    rng = np.random.default_rng(1803)
    for it in range(80):
        l1 = int(rng.integers(2, 24))
        l2 = int(rng.integers(2, 24))
        if it % 4 == 0:
            l2 = l1
        s1 = make_series(rng, l1, it % 4)
        s2 = make_series(rng, l2, (it + 2) % 4)
        prm = affinity_params(rng)
        window = [None, 1, 2, 4, int(rng.integers(1, max(l1, l2) + 2))][it % 5]
        penalty = [None, 0.1][it % 2]
        only_triu = it % 3 == 1
        lc = LocalConcurrences(s1, s2, only_triu=only_triu, penalty=penalty, window=window,
                               use_c=True, compact=True, **prm)
        lc.align()
        wp = lc._wp
        parts = lc._c_parts
        tag = ('C', it, l1, l2, window, penalty, only_triu, tuple(sorted(prm.items())))
        record(tag + ('start',), lc_state(lc))
        for step in range(8):
            op = int(rng.integers(0, 6))
            rb = int(rng.integers(0, l1 + 1))
            re = int(rng.integers(rb, l1 + 2))
            cb = int(rng.integers(0, l2 + 1))
            ce = int(rng.integers(cb, l2 + 2))
            if op == 0 or op == 1:
                # intersection=True is what kbest_matches(buffer<0) uses
                dtw_cc.wps_negativize(parts, wp, l1, l2, max(1, rb), re, max(1, cb), ce, True)
                res = None
            elif op == 2:
                dtw_cc.wps_negativize(parts, wp, l1, l2, max(1, rb), max(1, re), cb, ce, False)
                res = None
            elif op == 3:
                dtw_cc.wps_positivize(parts, wp, l1, l2, max(1, rb), max(1, re), cb, ce, bool(step % 2))
                res = None
            elif op == 4:
                r = int(rng.integers(1, l1 + 1))
                c = int(rng.integers(1, l2 + 1))
                dtw_cc.wps_negativize_value(parts, wp, l1, l2, r, c)
                r2 = int(rng.integers(1, l1 + 1))
                c2 = int(rng.integers(1, l2 + 1))
                dtw_cc.wps_positivize_value(parts, wp, l1, l2, r2, c2)
                res = (r, c, r2, c2)
            else:
                r, c = dtw_cc.wps_max(parts, wp, l1, l2)
                res = (int(r), int(c))
                if r > 0 and c > 0:
                    path = dtw_cc.best_path_compact_affinity(wp, l1, l2, r, c, window=window)
                    res = res + ([(int(a), int(b)) for a, b in path],)
                    for (x, y) in path:
                        dtw_cc.wps_negativize_value(parts, wp, l1, l2, x + 1, y + 1)
            record(tag + (step, op, rb, re, cb, ce), (res, lc_state(lc)))
        lc._reset_wp_mask()
        record(tag + ('reset',), lc_state(lc))


def main():
    section_a()
    section_b()
    section_c()
    sys.stdout.flush()
    print('NRESULTS', NRES[0])
    for key in sorted(NEXC):
        print('EXCEPTIONS', key, NEXC[key])
    print('DIGEST', H.hexdigest())
    return 0


if __name__ == '__main__':
    sys.exit(main())
