"""Randomised comparison for C09 (LB_Keogh / Euclidean upper bound, both engines)."""
import hashlib
import random
import struct
import sys

import numpy as np

from dtaidistance import dtw, dtw_ndim, ed, ed_cc, dtw_cc


def fl(x):
    """Exact representation of a float result."""
    try:
        return struct.pack('>d', float(x)).hex()
    except Exception as exc:  # pragma: no cover
        return 'ERR:' + type(exc).__name__


def call(fn, *args, **kwargs):
    try:
        return fl(fn(*args, **kwargs))
    except Exception as exc:
        return 'EXC:' + type(exc).__name__ + ':' + str(exc)[:60]


def gen_series(rng, n, mode):
    if mode == 'neg':
        return [-abs(rng.gauss(0, 3)) - 0.5 for _ in range(n)]
    if mode == 'pos':
        return [abs(rng.gauss(0, 3)) + 0.5 for _ in range(n)]
    if mode == 'int':
        return [float(rng.randint(-4, 4)) for _ in range(n)]
    if mode == 'const':
        v = rng.uniform(-2, 2)
        return [v for _ in range(n)]
    if mode == 'walk':
        out, v = [], 0.0
        for _ in range(n):
            v += rng.gauss(0, 1)
            out.append(v)
        return out
    return [rng.gauss(0, 2) for _ in range(n)]


MODES = ['mixed', 'neg', 'pos', 'int', 'const', 'walk']
INNER = ['squared euclidean', 'euclidean']


def main():
    rng = random.Random(90909)
    results = []
    # ---- univariate: lb_keogh (both engines), ub (all entry points), only_ub
    for it in range(700):
        l1 = rng.randint(1, 24)
        l2 = rng.choice([l1, l1, rng.randint(1, 24), rng.randint(1, 40)])
        m1, m2 = rng.choice(MODES), rng.choice(MODES)
        a = np.array(gen_series(rng, l1, m1), dtype=np.double)
        b = np.array(gen_series(rng, l2, m2), dtype=np.double)
        if rng.random() < 0.15:
            b = b + rng.choice([-20.0, 20.0])
        windows = [None, 1, 2, 3, rng.randint(1, 12), max(l1, l2), max(l1, l2) + 5]
        for inner in INNER:
            for w in windows:
                results.append(('lbk_py', it, inner, w, call(dtw.lb_keogh, a, b, window=w, inner_dist=inner, use_c=False)))
                results.append(('lbk_c', it, inner, w, call(dtw.lb_keogh, a, b, window=w, inner_dist=inner, use_c=True)))
                results.append(('lbk_py_r', it, inner, w, call(dtw.lb_keogh, b, a, window=w, inner_dist=inner, use_c=False)))
                results.append(('lbk_c_r', it, inner, w, call(dtw.lb_keogh, b, a, window=w, inner_dist=inner, use_c=True)))
            # python lists as input of the pure-Python version
            results.append(('lbk_py_list', it, inner, call(dtw.lb_keogh, list(a), list(b), window=windows[4], inner_dist=inner)))
            results.append(('lbk_cc', it, inner, call(dtw_cc.lb_keogh, a, b, window=windows[4], inner_dist=(1 if inner == 'euclidean' else 0))))
            results.append(('lbk_cc_w0', it, inner, call(dtw_cc.lb_keogh, a, b, inner_dist=(1 if inner == 'euclidean' else 0))))
            results.append(('ub_dtw', it, inner, call(dtw.ub_euclidean, a, b, inner_dist=inner)))
            results.append(('ed_py', it, inner, call(ed.distance, a, b, inner_dist=inner)))
            results.append(('ed_py_list', it, inner, call(ed.distance, list(a), list(b), inner_dist=inner)))
            results.append(('ed_py_r', it, inner, call(ed.distance, b, a, inner_dist=inner)))
            results.append(('ed_fast', it, inner, call(ed.distance_fast, a, b, inner_dist=inner)))
            results.append(('ed_fast_r', it, inner, call(ed.distance_fast, b, a, inner_dist=inner)))
            results.append(('only_ub_py', it, inner, call(dtw.distance, a, b, only_ub=True, inner_dist=inner, use_c=False)))
            results.append(('only_ub_c', it, inner, call(dtw.distance, a, b, only_ub=True, inner_dist=inner, use_c=True)))
            results.append(('only_ub_fast', it, inner, call(dtw.distance_fast, a, b, only_ub=True, inner_dist=inner)))
            w = windows[4]
            results.append(('dtw_py', it, inner, w, call(dtw.distance, a, b, window=w, inner_dist=inner, use_c=False)))
            results.append(('dtw_c', it, inner, w, call(dtw.distance, a, b, window=w, inner_dist=inner, use_c=True)))
        results.append(('ub_cc', it, call(dtw_cc.ub_euclidean, a, b)))
        results.append(('ub_cc_r', it, call(dtw_cc.ub_euclidean, b, a)))

    # ---- multivariate: upper bound only (ndim 1..3)
    for it in range(400):
        nd = rng.randint(1, 3)
        l1 = rng.randint(1, 18)
        l2 = rng.choice([l1, rng.randint(1, 18), rng.randint(1, 30)])
        a = np.array([gen_series(rng, nd, rng.choice(MODES)) for _ in range(l1)], dtype=np.double)
        b = np.array([gen_series(rng, nd, rng.choice(MODES)) for _ in range(l2)], dtype=np.double)
        for inner in INNER:
            ic = 1 if inner == 'euclidean' else 0
            results.append(('nd_ub', it, inner, call(dtw_ndim.ub_euclidean, a, b, inner_dist=inner)))
            results.append(('nd_ub_r', it, inner, call(dtw_ndim.ub_euclidean, b, a, inner_dist=inner)))
            results.append(('nd_ed_py', it, inner, call(ed.distance, a, b, inner_dist=inner, use_ndim=True)))
            results.append(('nd_dtw_ub', it, inner, call(dtw.ub_euclidean, a, b, inner_dist=inner, use_ndim=True)))
            results.append(('nd_ed_cc', it, inner, call(ed_cc.distance_ndim, a, b, inner_dist=ic)))
            results.append(('nd_ed_cc_r', it, inner, call(ed_cc.distance_ndim, b, a, inner_dist=ic)))
            results.append(('nd_only_ub_py', it, inner, call(dtw_ndim.distance, a, b, only_ub=True, inner_dist=inner, use_c=False)))
            results.append(('nd_only_ub_c', it, inner, call(dtw_ndim.distance, a, b, only_ub=True, inner_dist=inner, use_c=True)))
        results.append(('nd_ub_cc', it, call(dtw_cc.ub_euclidean_ndim, a, b)))

    n_exc = sum(1 for r in results if str(r[-1]).startswith('EXC'))
    print('N', len(results), 'EXC', n_exc, file=sys.stderr)
    digest = hashlib.sha256(repr(results).encode('utf-8')).hexdigest()
    print('DIGEST ' + digest)
    return 0


if __name__ == '__main__':
    sys.exit(main())
