"""Demo for refactoring r4 (property C02).

Exercises the Python -> C option translation (dtw.DTWSettings.c_kwargs, also reached
through DTWSettings.__str__) and the single-pair wrapper dtw.distance_fast (1-D and
n-D, reached directly, through dtw_ndim.distance_fast and through dtw.distance(use_c=True))
on seeded random series and option combinations.  Prints one DIGEST line.
"""
import array
import hashlib
import math
import random
import sys

import numpy as np

from dtaidistance import dtw, dtw_ndim

SEED = 20240402
rng = random.Random(SEED)
results = []


def rec(tag, fn):
    try:
        v = fn()
    except Exception as exc:  # recorded, part of the observable behaviour
        v = 'EXC:' + type(exc).__name__ + ':' + str(exc)
    if isinstance(v, float):
        v = (repr(v), v.hex() if not math.isnan(v) else 'nan')
    results.append((tag, repr(v)))
    return v


def rand_series(n, ndim=None, style=0):
    if ndim is None:
        shape = (n,)
    else:
        shape = (n, ndim)
    cnt = int(np.prod(shape))
    if style == 0:
        vals = [rng.uniform(-5, 5) for _ in range(cnt)]
    elif style == 1:
        vals = [float(rng.randint(-3, 3)) for _ in range(cnt)]
    elif style == 2:
        vals = [rng.gauss(0, 1) * 10 ** rng.randint(-3, 3) for _ in range(cnt)]
    else:
        vals = [rng.choice([0.0, 1.0, -1.0, 0.5]) for _ in range(cnt)]
    return np.array(vals, dtype=np.double).reshape(shape)


def rand_psi(l1, l2, window):
    # psi-relaxation wider than the band (or than a series) is outside the domain accepted
    # by the engines (the C kernel only asserts it), so stay inside it.
    m = min(l1, l2)
    if window is not None:
        m = min(m, window)
    k = rng.random()
    if k < 0.35:
        return None
    if k < 0.45:
        return 0
    if k < 0.70:
        return rng.randint(0, m)
    t = (rng.randint(0, m), rng.randint(0, m), rng.randint(0, m), rng.randint(0, m))
    if k < 0.85:
        return t
    return list(t)


def rand_settings(l1, l2, allow_inf=True):
    s = {}
    k = rng.random()
    if k < 0.3:
        s['window'] = None
    elif k < 0.35:
        pass
    else:
        s['window'] = rng.randint(1, max(l1, l2) + 2)
    k = rng.random()
    if k < 0.3:
        s['penalty'] = None
    elif k < 0.4:
        s['penalty'] = 0
    elif k < 0.5:
        pass
    else:
        s['penalty'] = rng.choice([0.1, 0.5, 1.0, 2.5, rng.uniform(0, 3)])
    s['psi'] = rand_psi(l1, l2, s.get('window'))
    if s['psi'] is None and rng.random() < 0.5:
        del s['psi']
    k = rng.random()
    if k < 0.55:
        s['max_step'] = None
    elif k < 0.65:
        s['max_step'] = 0
    else:
        s['max_step'] = rng.choice([1.0, 3.0, 5.0, 8.0, 12.0, rng.uniform(0.5, 15)])
    k = rng.random()
    if k < 0.5:
        s['max_dist'] = None
    elif k < 0.6:
        s['max_dist'] = 0
    else:
        s['max_dist'] = rng.choice([2.0, 5.0, 10.0, 20.0, 40.0, rng.uniform(0.5, 60)])
    k = rng.random()
    if k < 0.5:
        s['max_length_diff'] = None
    elif k < 0.58:
        s['max_length_diff'] = 0
    elif k < 0.68 and allow_inf:
        s['max_length_diff'] = math.inf
    else:
        s['max_length_diff'] = rng.randint(1, 10)
    k = rng.random()
    if k < 0.5:
        s['use_pruning'] = rng.random() < 0.5
    elif k < 0.55:
        s['use_pruning'] = None
    s['inner_dist'] = rng.choice(['squared euclidean', 'euclidean'])
    if rng.random() < 0.1:
        del s['inner_dist']
    return s


# --- 1. option translation on its own -------------------------------------------------
for case in range(1500):
    l1, l2 = rng.randint(1, 12), rng.randint(1, 12)
    st = rand_settings(l1, l2)
    if rng.random() < 0.3:
        st['use_ndim'] = rng.random() < 0.5
    if rng.random() < 0.2:
        st['use_c'] = rng.random() < 0.5
    rec(('c_kwargs', case), lambda: sorted(dtw.DTWSettings(**st).c_kwargs().items(), key=lambda kv: kv[0]))
    rec(('c_kwargs_order', case), lambda: list(dtw.DTWSettings(**st).c_kwargs().keys()))
    rec(('str', case), lambda: str(dtw.DTWSettings(**st)))
rec('c_kwargs_default', lambda: list(dtw.DTWSettings().c_kwargs().items()))
for mld in [None, 0, 1, 7, math.inf, -math.inf, 2.5, float('nan')]:
    rec(('mld', repr(mld)), lambda: dtw.DTWSettings(max_length_diff=mld).c_kwargs()['max_length_diff'])
rec('mld_bad', lambda: dtw.DTWSettings(max_length_diff='x').c_kwargs())
rec('inner_bad', lambda: dtw.DTWSettings(inner_dist='manhattan').c_kwargs())

# --- 2. single-pair wrapper, 1-D -------------------------------------------------------
for case in range(2500):
    l1, l2 = rng.randint(1, 14), rng.randint(1, 14)
    if rng.random() < 0.3:
        l2 = l1
    style = rng.randint(0, 3)
    s1, s2 = rand_series(l1, style=style), rand_series(l2, style=style)
    st = rand_settings(l1, l2)
    only_ub = rng.random() < 0.12
    rec(('fast', case), lambda: dtw.distance_fast(s1, s2, only_ub=only_ub, **st))
    if case % 3 == 0:
        rec(('fast_usec', case), lambda: dtw.distance(s1, s2, only_ub=only_ub, use_c=True, **st))
    if case % 5 == 0:
        a1, a2 = array.array('d', s1.tolist()), array.array('d', s2.tolist())
        rec(('fast_array', case), lambda: dtw.distance_fast(a1, a2, only_ub=only_ub, **st))
    if case % 7 == 0:
        rec(('fast_ndim_false', case), lambda: dtw.distance_fast(s1, s2, only_ub=only_ub, use_ndim=False, **st))
    if case % 11 == 0:
        # python engine on the same input (the property compares the two engines)
        st2 = dict(st)
        rec(('python', case), lambda: dtw.distance(s1, s2, only_ub=only_ub, **st2))

# --- 3. single-pair wrapper, n-D -------------------------------------------------------
for case in range(2000):
    ndim = rng.randint(1, 3)
    l1, l2 = rng.randint(1, 12), rng.randint(1, 12)
    if rng.random() < 0.3:
        l2 = l1
    style = rng.randint(0, 3)
    s1, s2 = rand_series(l1, ndim, style), rand_series(l2, ndim, style)
    st = rand_settings(l1, l2)
    only_ub = rng.random() < 0.12
    rec(('fast_nd', case), lambda: dtw.distance_fast(s1, s2, only_ub=only_ub, use_ndim=True, **st))
    st_nd = {k: v for k, v in st.items()}
    rec(('fast_nd_mod', case), lambda: dtw_ndim.distance_fast(s1, s2, only_ub=only_ub, **st_nd))
    if case % 3 == 0:
        rec(('nd_usec', case), lambda: dtw_ndim.distance(s1, s2, only_ub=only_ub, use_c=True, **st_nd))
    if case % 13 == 0:
        # truthy / falsy non-bool values of use_ndim select the branch through `is False`
        for flag in (0, 1, None):
            rec(('fast_nd_flag', case, repr(flag)),
                lambda: dtw.distance_fast(s1, s2, only_ub=only_ub, use_ndim=flag, **st))
    if case % 11 == 0:
        rec(('python_nd', case), lambda: dtw_ndim.distance(s1, s2, only_ub=only_ub, **st_nd))

h = hashlib.sha256(repr(results).encode('utf-8')).hexdigest()
print('DIGEST', h)
print('n_results', len(results), file=sys.stderr)
sys.exit(0)
