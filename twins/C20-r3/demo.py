#!/usr/bin/env python
"""Randomised bit-for-bit comparison for refactoring r3 (dtw_barycenter.dba_loop / dba).

Calls dba_loop and dba through the public API on seeded random inputs, for
every container representation x engine x option combination, records the
result (bitwise), the bitwise state of the inputs after the call, and repeats
calls on shared objects.  Prints `DIGEST <sha256>`.
"""
import array
import hashlib
import io
import contextlib
import os
import random
import subprocess
import sys
import logging

import numpy as np

logging.disable(logging.CRITICAL)

from dtaidistance import dtw_barycenter, dtw, dtw_ndim, util
from dtaidistance.util import SeriesContainer
try:
    from dtaidistance import dtw_cc
except ImportError:  # pragma: no cover
    dtw_cc = None


def canon(o):
    """Bit-exact, container-aware canonical representation."""
    if isinstance(o, np.ndarray):
        return ('nd', str(o.dtype), o.shape, np.ascontiguousarray(o).tobytes().hex())
    if isinstance(o, np.generic):
        return ('ng', str(o.dtype), o.tobytes().hex())
    if isinstance(o, array.array):
        return ('arr', o.typecode, o.tobytes().hex())
    if isinstance(o, float):
        return ('f', o.hex())
    if isinstance(o, (bool, int, str, type(None))):
        return o
    if isinstance(o, (list, tuple)):
        return (type(o).__name__, [canon(x) for x in o])
    if isinstance(o, dict):
        return ('dict', [(k, canon(v)) for k, v in sorted(o.items())])
    if isinstance(o, SeriesContainer):
        return ('SC', canon(o.series), o.detected_ndim)
    if isinstance(o, memoryview):
        return ('mv', o.tobytes().hex())
    if isinstance(o, BaseException):
        return ('exc', type(o).__name__, str(o))
    try:
        return ('mvlike', type(o).__name__, canon(np.asarray(o)))
    except Exception:
        return ('obj', type(o).__name__)


def call(fn, *args, **kwargs):
    out = io.StringIO()
    try:
        with contextlib.redirect_stdout(out):
            r = fn(*args, **kwargs)
        return ('ok', canon(r), out.getvalue())
    except BaseException as e:  # noqa
        return ('raise', type(e).__name__, str(e), out.getvalue())


def make_series(rng, n, lmin, lmax, equal):
    if equal:
        length = rng.randint(lmin, lmax)
        lens = [length] * n
    else:
        lens = [rng.randint(lmin, lmax) for _ in range(n)]
    return [[round(rng.uniform(-3, 3), rng.choice([0, 1, 3, 9])) for _ in range(l)] for l in lens]


def containers_1d(data, equal):
    """All container representations of the same numeric content."""
    reps = []
    reps.append(('list_of_list', lambda: [list(x) for x in data]))
    reps.append(('tuple_of_list', lambda: tuple(list(x) for x in data)))
    reps.append(('list_of_arr', lambda: [array.array('d', x) for x in data]))
    reps.append(('list_of_nd', lambda: [np.array(x, dtype=np.double) for x in data]))
    reps.append(('list_of_nd_strided', lambda: [np.repeat(np.array(x, dtype=np.double), 2)[::2] for x in data]))
    reps.append(('list_of_nd_rev', lambda: [np.array(x[::-1], dtype=np.double)[::-1] for x in data]))
    reps.append(('sc_list_of_nd', lambda: SeriesContainer([np.array(x, dtype=np.double) for x in data])))
    if equal:
        reps.append(('nd2_C', lambda: np.array(data, dtype=np.double)))
        reps.append(('nd2_F', lambda: np.asfortranarray(np.array(data, dtype=np.double))))
        reps.append(('nd2_T', lambda: np.array(data, dtype=np.double).T.copy().T))
        reps.append(('nd2_strided', lambda: np.repeat(np.array(data, dtype=np.double), 2, axis=1)[:, ::2]))
        reps.append(('sc_nd2', lambda: SeriesContainer(np.array(data, dtype=np.double))))
        reps.append(('sc_nd2_F', lambda: SeriesContainer.wrap(np.asfortranarray(np.array(data, dtype=np.double)))))
    return reps


def containers_nd(data3, equal):
    reps = []
    reps.append(('list_of_nd2', lambda: [np.array(x, dtype=np.double) for x in data3]))
    reps.append(('list_of_nd2_F', lambda: [np.asfortranarray(np.array(x, dtype=np.double)) for x in data3]))
    reps.append(('list_of_nd2_strided',
                 lambda: [np.repeat(np.array(x, dtype=np.double), 2, axis=0)[::2] for x in data3]))
    reps.append(('list_of_lll', lambda: [[list(p) for p in x] for x in data3]))
    if equal:
        reps.append(('nd3_C', lambda: np.array(data3, dtype=np.double)))
        reps.append(('nd3_F', lambda: np.asfortranarray(np.array(data3, dtype=np.double))))
        reps.append(('nd3_strided', lambda: np.repeat(np.array(data3, dtype=np.double), 2, axis=1)[:, ::2, :]))
        reps.append(('sc_nd3', lambda: SeriesContainer(np.array(data3, dtype=np.double))))
    return reps


def make_c(kind, base, ndim):
    if base is None:
        return None
    if kind == 'nd':
        return np.array(base, dtype=np.double)
    if kind == 'nd_strided':
        a = np.array(base, dtype=np.double)
        return np.repeat(a, 2, axis=0)[::2]
    if kind == 'arr':
        return array.array('d', base)
    if kind == 'list':
        return [list(x) for x in base] if ndim > 1 else list(base)
    raise ValueError(kind)


def main():
    # The C library prints diagnostics with printf: send file descriptor 1 to
    # /dev/null while the calls run, restore it for the DIGEST line.
    import ctypes
    libc = ctypes.CDLL(None)
    sys.stdout.flush()
    saved_fd = os.dup(1)
    devnull = os.open(os.devnull, os.O_WRONLY)
    os.dup2(devnull, 1)
    try:
        summary = run()
    finally:
        sys.stdout.flush()
        libc.fflush(None)
        os.dup2(saved_fd, 1)
        os.close(devnull)
        os.close(saved_fd)
    print(summary)
    return 0


def run():
    rng = random.Random(20200320)
    results = []

    option_sets = [
        {},
        {'window': 2},
        {'window': 4, 'penalty': 0.1},
        {'psi': 1},
        {'max_step': 2.5},
        {'inner_dist': 'euclidean'},
        {'window': 3, 'psi': (1, 0, 0, 1)},
    ]

    # ------------------------------------------------------------ 1-D series
    for trial in range(14):
        equal = trial % 2 == 0
        n = rng.randint(2, 6)
        data = make_series(rng, n, 3, 9, equal)
        mask_variants = [None, 'all', 'some', 'skipfirst', 'none']
        for rep_name, build in containers_1d(data, equal):
            for use_c in (False, True):
                if use_c and dtw_cc is None:
                    continue
                opts = option_sets[rng.randrange(len(option_sets))]
                mask_kind = mask_variants[rng.randrange(len(mask_variants))]
                if mask_kind is None:
                    mask = None
                elif mask_kind == 'all':
                    mask = np.full((n,), True, dtype=bool)
                elif mask_kind == 'none':
                    mask = np.full((n,), False, dtype=bool)
                elif mask_kind == 'skipfirst':
                    mask = np.array([False] + [True] * (n - 1), dtype=bool)
                else:
                    mask = np.array([rng.random() < 0.6 for _ in range(n)], dtype=bool)
                    if not mask.any():
                        mask[rng.randrange(n)] = True
                c_kind = rng.choice([None, None, 'nd', 'nd_strided', 'arr', 'list'])
                c_base = None
                if c_kind is not None:
                    c_len = rng.randint(2, 8)
                    c_base = [round(rng.uniform(-2, 2), 3) for _ in range(c_len)]
                nis = rng.choice([None, None, None, 2, 3, 10])
                thr = rng.choice([0.001, None, 0.5, 1e-9])
                max_it = rng.choice([1, 2, 5, 10])
                keep = rng.random() < 0.3
                nps = rng.choice([None, None, 0, 0, 3]) if use_c else rng.choice([None, None, 0, 0, 0, 0, 0, 2])

                s = build()
                c = make_c(c_kind, c_base, 1)
                before = canon(s)
                cb = canon(c)
                mb = canon(mask)
                random.seed(1000 + trial)
                if dtw_cc is not None:
                    dtw_cc.srand(77 + trial)
                r1 = call(dtw_barycenter.dba_loop, s, c=c, max_it=max_it, thr=thr, mask=mask,
                          keep_averages=keep, use_c=use_c, nb_initial_samples=nis,
                          nb_prob_samples=nps, **opts)
                after = canon(s)
                # repeat on the same objects: history independence
                random.seed(1000 + trial)
                if dtw_cc is not None:
                    dtw_cc.srand(77 + trial)
                r2 = call(dtw_barycenter.dba_loop, s, c=c, max_it=max_it, thr=thr, mask=mask,
                          keep_averages=keep, use_c=use_c, nb_initial_samples=nis,
                          nb_prob_samples=nps, **opts)
                results.append(('dba_loop', trial, rep_name, use_c, sorted(opts.items()), mask_kind,
                                c_kind, nis, thr, max_it, keep, nps, r1, r2,
                                before == after or ('changed', after), cb == canon(c), mb == canon(mask)))

                # single dba step on the same (shared) container
                random.seed(2000 + trial)
                r3 = call(dtw_barycenter.dba, s, c, mask=mask, use_c=use_c,
                          nb_initial_samples=nis, **opts)
                samples = rng.choice([None, None, 0, 0, 0, -1, 2])
                r4 = call(dtw_barycenter.dba, s, c, mask=mask, samples=samples, use_c=use_c, **opts)
                results.append(('dba', trial, rep_name, use_c, samples, r3, r4,
                                canon(s) == after or ('changed', canon(s)), cb == canon(c)))

    # ------------------------------------------------------------ n-D series
    for trial in range(8):
        equal = trial % 2 == 0
        n = rng.randint(2, 5)
        ndim = rng.randint(2, 3)
        if equal:
            length = rng.randint(3, 7)
            lens = [length] * n
        else:
            lens = [rng.randint(3, 7) for _ in range(n)]
        data3 = [[[round(rng.uniform(-3, 3), 2) for _ in range(ndim)] for _ in range(l)] for l in lens]
        for rep_name, build in containers_nd(data3, equal):
            for use_c in (False, True):
                if use_c and dtw_cc is None:
                    continue
                opts = option_sets[rng.randrange(4)]
                mask = None
                if rng.random() < 0.5:
                    mask = np.array([rng.random() < 0.7 for _ in range(n)], dtype=bool)
                    if not mask.any():
                        mask[-1] = True
                c_kind = rng.choice([None, None, 'nd', 'nd_strided', 'list'])
                c_base = None
                if c_kind is not None:
                    c_len = rng.randint(2, 6)
                    c_base = [[round(rng.uniform(-2, 2), 3) for _ in range(ndim)] for _ in range(c_len)]
                nis = rng.choice([None, None, 2])
                thr = rng.choice([0.001, None, 0.3])
                max_it = rng.choice([1, 3, 6])
                keep = rng.random() < 0.3
                s = build()
                c = make_c(c_kind, c_base, ndim)
                before = canon(s)
                cb = canon(c)
                random.seed(3000 + trial)
                r1 = call(dtw_barycenter.dba_loop, s, c=c, max_it=max_it, thr=thr, mask=mask,
                          keep_averages=keep, use_c=use_c, nb_initial_samples=nis, **opts)
                random.seed(3000 + trial)
                r2 = call(dtw_barycenter.dba_loop, s, c=c, max_it=max_it, thr=thr, mask=mask,
                          keep_averages=keep, use_c=use_c, nb_initial_samples=nis, **opts)
                after = canon(s)
                random.seed(4000 + trial)
                r3 = call(dtw_barycenter.dba, s, c, mask=mask, use_c=use_c, nb_initial_samples=nis, **opts)
                results.append(('nd', trial, rep_name, use_c, ndim, sorted(opts.items()), c_kind, nis, thr,
                                max_it, keep, r1, r2, r3, before == after or ('changed', after),
                                cb == canon(c)))

    # ------------------------------------------- interleaved calls on shared objects
    data = make_series(rng, 5, 6, 6, True)
    shared = np.array(data, dtype=np.double)
    shared_list = [np.array(x, dtype=np.double) for x in data]
    snap = canon(shared), canon(shared_list)
    seq = []
    for k in range(3):
        for use_c in (False, True):
            if use_c and dtw_cc is None:
                continue
            seq.append(call(dtw_barycenter.dba_loop, shared, use_c=use_c, max_it=4))
            seq.append(call(dtw.distance_matrix, shared_list, use_c=use_c, compact=True))
            seq.append(call(dtw_barycenter.dba_loop, shared_list, c=shared[1], use_c=use_c, max_it=3, thr=None))
            seq.append(call(dtw_barycenter.dba, shared_list, shared_list[2], use_c=use_c))
            seq.append(call(dtw_barycenter.dba_loop, shared[::2], c=None, use_c=use_c, max_it=3))
            seq.append(call(dtw_barycenter.dba_loop, shared.T, c=None, use_c=use_c, max_it=3))
    results.append(('interleaved', seq, snap == (canon(shared), canon(shared_list))))

    # ------------------------------------------- NumPy absent (sub-process)
    if os.environ.get('DTAIDISTANCE_TESTWITHOUTNUMPY') != '1':
        code = (
            "import array, logging; logging.disable(logging.CRITICAL)\n"
            "from dtaidistance import dtw_barycenter\n"
            "s=[array.array('d',[0.,1.,2.,1.]),array.array('d',[1.,2.,0.,0.,1.])]\n"
            "for fn,kw in [(dtw_barycenter.dba_loop,dict(c=None)),(dtw_barycenter.dba_loop,dict(c=s[0],use_c=True)),"
            "(dtw_barycenter.dba,dict(c=None)),(dtw_barycenter.dba,dict(c=s[1],mask=None,nb_initial_samples=2))]:\n"
            "    try:\n"
            "        print('ok', fn(s, **kw))\n"
            "    except Exception as e:\n"
            "        print('raise', type(e).__name__, e)\n"
            "print([x.tobytes().hex() for x in s])\n")
        env = dict(os.environ)
        env['DTAIDISTANCE_TESTWITHOUTNUMPY'] = '1'
        p = subprocess.run([sys.executable, '-c', code], env=env, stdout=subprocess.PIPE,
                           stderr=subprocess.DEVNULL, universal_newlines=True)
        results.append(('nonumpy', p.returncode, p.stdout))

    digest = hashlib.sha256(repr(results).encode('utf-8')).hexdigest()
    nb_ok = sum(1 for r in results for x in r if isinstance(x, tuple) and len(x) > 0 and x[0] == 'ok')
    nb_raise = sum(1 for r in results for x in r if isinstance(x, tuple) and len(x) > 0 and x[0] == 'raise')
    return 'records %d ok-calls %d raising-calls %d\nDIGEST %s' % (len(results), nb_ok, nb_raise, digest)


if __name__ == '__main__':
    sys.exit(main())
