#!/usr/bin/env python
"""Randomised comparison for the C barycenter routines (dtw_dba_matrix,
dtw_dba_ptrs) that DBA k-means uses for its update step.

Part A: KMeans.fit with use_c=True (and a few use_c=False for context) on
        matrices (-> dtw_dba_matrix), lists of arrays of equal / different
        length (-> dtw_dba_ptrs), ndim 1 and 2, with / without nb_prob_samples.
Part B: dtw_barycenter.dba_loop(use_c=True) with random masks, options.
Part C: dtw_cc.dba / dtw_cc.dba_ndim called directly (one DBA step).
Every observable result is recorded bit-for-bit; prints  DIGEST <sha256>.
"""
import contextlib
import hashlib
import ctypes
import io
import logging
import os
import random
import sys

import numpy as np

from dtaidistance.clustering.kmeans import KMeans
from dtaidistance import dtw_cc
from dtaidistance.dtw_barycenter import dba_loop
from dtaidistance.util import SeriesContainer

logging.getLogger("be.kuleuven.dtai.distance").setLevel(logging.ERROR)


def fl(x):
    """Exact (bit-for-bit) representation of floats / nested arrays."""
    if isinstance(x, np.ndarray):
        return ('nd', x.shape, str(x.dtype), x.tobytes().hex())
    if isinstance(x, (list, tuple)):
        return [fl(v) for v in x]
    if isinstance(x, (float, np.floating)):
        return float(x).hex()
    if isinstance(x, (np.integer,)):
        return int(x)
    try:
        return [fl(v) for v in x]
    except TypeError:
        return repr(x)


def dba_window_safe(lengths, window, ts=None):
    """The C barycenter code sizes its warping-paths buffer for the longest series;
    with a window and series of different lengths that buffer can be too small
    (undefined behaviour in the original code). Such combinations are avoided."""
    if not window:
        return True
    mx = max(lengths)
    for t in (set(lengths) if ts is None else ts):
        ref = min(mx + 1, abs(t - mx) + 2 * min(window, max(t, mx)) + 1)
        for ln in lengths:
            if min(ln + 1, abs(t - ln) + 2 * min(window, max(t, ln)) + 1) > ref:
                return False
    return True


def make_data(rng, n, length, ndim, dup, as_list, varlen):
    if ndim == 1:
        base = rng.standard_normal((n, length))
        base += np.sin(np.linspace(0, 3, length))[None, :] * rng.integers(0, 3, size=(n, 1))
    else:
        base = rng.standard_normal((n, length, ndim))
    base = np.round(base, 3) if rng.random() < 0.3 else base
    for _ in range(dup):
        a, b = rng.integers(0, n, size=2)
        base[a] = base[b]
    base = np.ascontiguousarray(base, dtype=np.double)
    if as_list:
        out = []
        for i in range(n):
            ln = length
            if varlen:
                ln = int(rng.integers(min(length, max(2, length - 4)), length + 1))
            out.append(np.ascontiguousarray(base[i][:ln]))
        return out
    return base


def run_kmeans(seed, data, k, init, drop, dopts, use_parallel, max_it, nb_prob):
    random.seed(seed)
    np.random.seed(seed)
    dtw_cc.srand(seed % 1000 + 1)
    kw = dict(k=k, max_it=max_it, max_dba_it=4, drop_stddev=drop, nb_prob_samples=nb_prob,
              dists_options=dict(dopts), show_progress=False)
    if init == 'pp_sample':
        kw['initialize_sample_size'] = 2
    elif init == 'random':
        kw['initialize_with_kmeanspp'] = False
    calls = []

    def monitor(cd, stopped):
        calls.append((fl([list(t) for t in cd]), stopped))
        return True

    buf = io.StringIO()
    rec = {}
    try:
        model = KMeans(**kw)
        with contextlib.redirect_stdout(buf):
            cluster_idx, performed_it = model.fit(data, use_parallel=use_parallel,
                                                  monitor_distances=monitor)
        rec['clusters'] = [(ki, sorted(int(i) for i in v)) for ki, v in sorted(cluster_idx.items())]
        rec['it'] = performed_it
        rec['means'] = [fl(np.asarray(m)) for m in model.means]
    except Exception as exc:
        rec['exc'] = (type(exc).__name__, str(exc))
    rec['calls'] = calls
    rec['stdout'] = buf.getvalue()
    return rec


def part_a(results):
    dopt_list = [{}, {'window': 3}, {'window': 4, 'penalty': 0.5}, {'penalty': 0.2, 'psi': 1},
                 {'max_step': 5.0}]
    inits = ['pp', 'pp_sample', 'random']
    drops = [None, 1, 3]
    cfg_id = 0
    for seed in range(16):
        rng = np.random.default_rng(2000 + seed)
        for ndim in (1, 2):
            # (a numpy matrix cannot be used with use_c=True in this build: the numpy helper
            #  extension fails to import dtw_cc, so lists of arrays are used)
            for layout in ('list', 'varlist', 'list'):
                n = int(rng.integers(6, 14))
                length = int(rng.integers(7, 14))
                dup = int(rng.integers(0, 4))
                data = make_data(rng, n, length, ndim, dup, layout != 'matrix', layout == 'varlist')
                for k in (2, min(4, n - 1)):
                    for j in range(3):
                        cfg_id += 1
                        init = inits[(cfg_id + j) % 3]
                        drop = drops[(cfg_id // 2 + j) % 3]
                        dopts = dict(dopt_list[(cfg_id // 3 + j) % len(dopt_list)])
                        dopts['use_c'] = (cfg_id % 9 != 0)
                        if not dba_window_safe([len(x) for x in data], dopts.get('window')):
                            del dopts['window']
                        use_parallel = (cfg_id % 17 == 0)
                        # (probabilistic paths use the C rand() state of whichever pool worker
                        #  gets the task, so they are only reproducible in the serial mode)
                        nb_prob = 3 if (dopts['use_c'] and cfg_id % 4 == 1 and not use_parallel) else None
                        max_it = (2, 4, 7)[cfg_id % 3]
                        rec = run_kmeans(seed * 104729 + cfg_id, data, k, init, drop, dopts,
                                         use_parallel, max_it, nb_prob)
                        results.append(('A', cfg_id, seed, ndim, layout, n, length, k, init, drop,
                                        sorted(dopts.items()), nb_prob, use_parallel, max_it, rec))


def part_b(results):
    kw_list = [{}, {'window': 2}, {'window': 5, 'penalty': 0.3}, {'psi': 2}, {'penalty': 1.0},
               {'window': 3, 'psi': 1}, {'max_step': 1.5}, {'inner_dist': 'euclidean'}]
    cfg_id = 0
    for seed in range(60):
        rng = np.random.default_rng(3000 + seed)
        for ndim in (1, 2):
            for layout in ('list', 'varlist'):
                cfg_id += 1
                n = int(rng.integers(2, 20))
                length = int(rng.integers(3, 18))
                data = make_data(rng, n, length, ndim, int(rng.integers(0, 3)), layout != 'matrix',
                                 layout == 'varlist')
                mask = rng.random(n) < rng.choice([0.3, 0.6, 1.0])
                if not mask.any():
                    mask[int(rng.integers(0, n))] = True
                mask_arg = None if cfg_id % 7 == 0 else mask
                c_mode = cfg_id % 4
                if c_mode == 0:
                    c = None
                elif c_mode == 1:
                    c = np.array(data[int(rng.integers(0, n))], dtype=np.double)
                elif c_mode == 2:
                    shape = (int(rng.integers(2, length + 4)),) + ((ndim,) if ndim > 1 else ())
                    c = np.ascontiguousarray(rng.standard_normal(shape))
                else:
                    c = np.array(data[0], dtype=np.double) * 0.5
                for kw in (kw_list[cfg_id % len(kw_list)], kw_list[(cfg_id * 3 + 1) % len(kw_list)]):
                    lengths = [len(x) for x in data]
                    if not dba_window_safe(lengths, kw.get('window'), None if c is None else {len(c)}):
                        kw = {key: val for key, val in kw.items() if key != 'window'}
                    for nb_prob in (None, 2):
                        random.seed(seed)
                        np.random.seed(seed)
                        dtw_cc.srand(seed + 1)
                        buf = io.StringIO()
                        try:
                            with contextlib.redirect_stdout(buf):
                                avg, avgs = dba_loop(data, c=None if c is None else c.copy(),
                                                     max_it=int(rng.integers(1, 6)), thr=0.001,
                                                     mask=None if mask_arg is None else mask_arg.copy(),
                                                     keep_averages=True, use_c=True,
                                                     nb_prob_samples=nb_prob, **kw)
                            out = (fl(np.asarray(avg)), [fl(np.asarray(a)) for a in avgs])
                        except Exception as exc:
                            out = ('exc', type(exc).__name__, str(exc))
                        results.append(('B', cfg_id, seed, ndim, layout, n, length, c_mode,
                                        None if mask_arg is None else mask_arg.tolist(),
                                        sorted(kw.items()), nb_prob, out, buf.getvalue()))


def part_c(results):
    for seed in range(96):
        rng = np.random.default_rng(4000 + seed)
        ndim = 1 + seed % 2
        n = int(rng.integers(1, 25))
        length = int(rng.integers(2, 20))
        layout = ('matrix', 'list', 'varlist')[seed % 3]
        data = make_data(rng, n, length, ndim, 0, layout != 'matrix', layout == 'varlist')
        # A raw matrix is handed to dtw_dba_matrix, a container of arrays to dtw_dba_ptrs
        s = data if layout == 'matrix' else SeriesContainer.wrap(data, support_ndim=True)
        mask = rng.random(n) < 0.6
        mask[int(rng.integers(0, n))] = True
        bits = np.packbits(mask, bitorder='little')
        t = int(rng.integers(2, length + 3))
        for kw in ({}, {'window': int(rng.integers(1, 6))}, {'penalty': 0.1, 'psi': 1}):
            if not dba_window_safe([len(x) for x in data], kw.get('window'), {t}):
                kw = {}
            for nb_prob in (0, 1, 4):
                dtw_cc.srand(seed + 7)
                try:
                    if ndim == 1:
                        c = np.ascontiguousarray(rng.standard_normal(t))
                        c0 = c.copy()
                        ret = dtw_cc.dba(s, c, mask=bits, nb_prob_samples=nb_prob, **kw)
                    else:
                        c = np.ascontiguousarray(rng.standard_normal((t, ndim)))
                        c0 = c.copy()
                        ret = dtw_cc.dba_ndim(s, c, mask=bits, nb_prob_samples=nb_prob, ndim=ndim, **kw)
                    out = (fl(c0), fl(c), fl(np.asarray(ret)))
                except Exception as exc:
                    out = ('exc', type(exc).__name__, str(exc))
                results.append(('C', seed, ndim, layout, n, length, t, mask.tolist(),
                                sorted(kw.items()), nb_prob, out))


def main():
    results = []
    # The C library prints warnings with printf; keep them away from our stdout.
    sys.stdout.flush()
    saved_fd = os.dup(1)
    devnull = os.open(os.devnull, os.O_WRONLY)
    os.dup2(devnull, 1)
    try:
        part_c(results)
        part_b(results)
        part_a(results)
    finally:
        ctypes.CDLL(None).fflush(None)
        sys.stdout.flush()
        os.dup2(saved_fd, 1)
        os.close(devnull)
        os.close(saved_fd)
    nexc = sum(1 for r in results if "'exc'" in repr(r))
    print('runs', len(results), 'records with an exception', nexc, file=sys.stderr)
    digest = hashlib.sha256(repr(results).encode('utf-8')).hexdigest()
    print('DIGEST ' + digest)
    return 0


if __name__ == '__main__':
    sys.exit(main())
