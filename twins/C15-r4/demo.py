#!/usr/bin/env python
"""Randomised bit-for-bit comparison for property C15 (hierarchical clustering).

Exercises Hierarchical.fit, HierarchicalTree.fit/.linkage, LinkageTree.fit/.linkage,
the weight/order hooks, merge_hook call sequences, repeated fits on one model object,
and the Python / C distance-matrix functions (pointer and matrix containers, blocks,
compact form) that feed them.  Prints one line `DIGEST <sha256>`.
"""
import hashlib
import logging
import random
import sys

import numpy as np

from dtaidistance import dtw
from dtaidistance.clustering import hierarchical as H

logging.disable(logging.CRITICAL)

RESULTS = []


def canon(x):
    """Canonical, bit-exact, order-stable representation."""
    if isinstance(x, (float, np.floating)):
        return float(x).hex()
    if isinstance(x, (bool, np.bool_)):
        return bool(x)
    if isinstance(x, (int, np.integer)):
        return int(x)
    if isinstance(x, np.ndarray):
        return ('nd', tuple(x.shape), canon(x.tolist()))
    if isinstance(x, dict):
        return ('dict', [(canon(k), canon(v)) for k, v in x.items()])
    if isinstance(x, (set, frozenset)):
        return ('set', sorted(canon(v) for v in x))
    if isinstance(x, (list, tuple)):
        return [canon(v) for v in x]
    if x is None or isinstance(x, str):
        return x
    try:
        return [canon(v) for v in x]
    except TypeError:
        return repr(x)


def record(tag, value):
    RESULTS.append((tag, canon(value)))


def guarded(tag, fn):
    try:
        record(tag, fn())
    except Exception as exc:  # the exception type/message is an observable too
        record(tag, ('EXC', type(exc).__name__, str(exc)))


def make_series(rng, n, equal_length, kind):
    """kind: 'float' random walk, 'grid' small-integer valued (many ties), 'dups' with duplicates."""
    series = []
    base_len = rng.randint(3, 12)
    for _ in range(n):
        ln = base_len if equal_length else rng.randint(2, 12)
        if kind == 'grid':
            s = [float(rng.randint(0, 2)) for _ in range(ln)]
        else:
            v = 0.0
            s = []
            for _ in range(ln):
                v += rng.gauss(0, 1)
                s.append(v)
        series.append(np.array(s, dtype=np.double))
    if kind == 'dups' and n >= 2:
        for _ in range(max(1, n // 3)):
            a, b = rng.randrange(n), rng.randrange(n)
            series[a] = series[b].copy()
    if equal_length and rng.random() < 0.3:
        return np.array(series, dtype=np.double)
    return series


def dist_option_sets(rng):
    opts = [{}]
    opts.append({'window': rng.randint(1, 5)})
    opts.append({'max_dist': rng.choice([0.5, 1.5, 3.0])})
    opts.append({'max_length_diff': rng.randint(0, 3)})
    opts.append({'penalty': rng.choice([0.1, 1.0]), 'psi': rng.randint(0, 2)})
    opts.append({'use_pruning': True, 'max_step': rng.choice([1.0, 2.5])})
    return opts


def pick_max_dist(rng, series, use_c):
    m = dtw.distance_matrix(series, use_c=False, only_triu=True)
    finite = m[np.isfinite(m)]
    cands = [float('inf'), 0.0, 1e-9]
    if finite.size:
        vals = sorted(set(finite.tolist()))
        cands += [vals[0], vals[len(vals) // 2], vals[-1], vals[len(vals) // 3] * 0.999]
    return cands


class HookLog:
    def __init__(self):
        self.calls = []

    def __call__(self, from_idx, to_idx, distance):
        self.calls.append((from_idx, to_idx, distance))


def run_hierarchical(rng, tag, series, use_c, dopts, max_dist, hookmode, show_progress=False):
    n = len(series)
    dists_fun = dtw.distance_matrix_func(use_c=use_c) if rng.random() < 0.5 else \
        (dtw.distance_matrix_fast if use_c else dtw.distance_matrix)
    dopts = dict(dopts)
    if use_c and dists_fun is dtw.distance_matrix_fast:
        dopts['parallel'] = False
    log = HookLog()
    kwargs = dict(dists_fun=dists_fun, dists_options=dopts, max_dist=max_dist, show_progress=show_progress)
    weights = None
    if hookmode == 'log':
        kwargs['merge_hook'] = log
    elif hookmode == 'weight':
        weights = [rng.randint(1, 3) for _ in range(n)]
        kwargs['merge_hook'] = H.Hooks.create_weighthook(weights, series)
    elif hookmode == 'order':
        weights = [rng.randint(1, 3) for _ in range(n)]
        kwargs['order_hook'] = H.Hooks.create_orderhook(weights)
    elif hookmode == 'both':
        weights = [rng.randint(1, 3) for _ in range(n)]
        kwargs['merge_hook'] = H.Hooks.create_weighthook(weights, series)
        kwargs['order_hook'] = H.Hooks.create_orderhook(weights)
    model = H.Hierarchical(**kwargs)
    for rep in range(2):  # repeated fit on the same model object
        guarded((tag, 'H.fit', rep), lambda: model.fit(series))
        record((tag, 'H.state', rep), (list(log.calls), weights, sorted(model.dists_options.items(), key=repr),
                                        model.max_dist))
    return model


def run_tree(rng, tag, series, use_c, dopts, hookmode, max_dist):
    n = len(series)
    dists_fun = dtw.distance_matrix_func(use_c=use_c)
    log = HookLog()
    weights = None
    kwargs = dict(dists_fun=dists_fun, dists_options=dict(dopts), show_progress=False, max_dist=max_dist)
    if hookmode == 'log':
        kwargs['merge_hook'] = log
    elif hookmode == 'order':
        weights = [rng.randint(1, 3) for _ in range(n)]
        kwargs['order_hook'] = H.Hooks.create_orderhook(weights)
    if rng.random() < 0.5:
        tree = H.HierarchicalTree(model=H.Hierarchical(**kwargs))
    else:
        tree = H.HierarchicalTree(**kwargs)
    for rep in range(2):
        guarded((tag, 'HT.fit', rep), lambda: tree.fit(series))
        record((tag, 'HT.linkage', rep), tree.linkage)
        record((tag, 'HT.state', rep), (list(log.calls), weights, tree._model.max_dist,
                                         tree._model.merge_hook is (log if hookmode == 'log' else None)))
        if tree.linkage and len(tree.linkage) == n - 1:
            guarded((tag, 'HT.maxnode', rep), lambda: (tree.maxnode, tree.get_linkage(tree.maxnode)))
            guarded((tag, 'HT.dot', rep), tree.to_dot)


def run_linkage(rng, tag, series, use_c, dopts):
    for method in ('complete', 'single', 'average', 'ward'):
        tree = H.LinkageTree(dtw.distance_matrix_fast if use_c else dtw.distance_matrix,
                             dict(dopts, parallel=False) if use_c else dict(dopts), method=method)
        for rep in range(2):
            guarded((tag, 'LT.fit', method, rep), lambda: tree.fit(series))
            record((tag, 'LT.linkage', method, rep), tree.linkage)
        record((tag, 'LT.size', method), [tree._size_cond(k) for k in (0, 1, 2, 3, 7, len(series), 2.0, '5')])
    # LinkageTree with default options
    tree = H.LinkageTree(dtw.distance_matrix_func(use_c=use_c))
    guarded((tag, 'LT.default'), lambda: tree.fit(series))


def run_distmat(rng, tag, series, dopts):
    n = len(series)
    blocks = [None]
    a, b = sorted((rng.randint(0, n), rng.randint(0, n)))
    c, d = sorted((rng.randint(0, n), rng.randint(0, n)))
    blocks.append(((a, b), (c, d)))
    blocks.append(((0, n), (0, n)))
    blocks.append(((a, b), (c, d), False))
    for use_c in (False, True):
        for block in blocks:
            for compact in (False, True):
                for only_triu in (False, True):
                    guarded((tag, 'DM', use_c, block, compact, only_triu),
                            lambda: dtw.distance_matrix(series, block=block, compact=compact, use_c=use_c,
                                                        only_triu=only_triu, **dopts))
    guarded((tag, 'DMpy'), lambda: dtw.distance_matrix_python(dtw.SeriesContainer.wrap(series)))
    guarded((tag, 'DMpy-block'), lambda: dtw.distance_matrix_python(
        dtw.SeriesContainer.wrap(series), block=blocks[1], settings=dtw.DTWSettings(**dopts)))
    guarded((tag, 'DMpy-block-notriu'), lambda: dtw.distance_matrix_python(
        dtw.SeriesContainer.wrap(series), block=blocks[3], show_progress=False))
    # list-of-lists / list of arrays force the pointer container in C
    guarded((tag, 'DM-list'), lambda: dtw.distance_matrix([np.array(s) for s in series], use_c=True, compact=True))
    if isinstance(series, np.ndarray):
        # 2-D matrix container handed directly to the C wrapper (dtw_distances_matrix)
        from dtaidistance import dtw_cc
        for block in blocks:
            guarded((tag, 'DMcc-matrix', block), lambda: dtw_cc.distance_matrix(series, block=block))
        copts = {k: (0 if v is None else v) for k, v in dtw.DTWSettings(**dopts).kwargs().items()}
        copts.pop('use_c', None)
        guarded((tag, 'DMcc-matrix-opts'), lambda: dtw_cc.distance_matrix(series, **copts))

        def cc_fun(seqs, only_triu=False, **kwargs):
            d = dtw_cc.distance_matrix(np.ascontiguousarray(seqs), **kwargs)
            return dtw.distances_array_to_matrix(d, nb_series=len(seqs), only_triu=only_triu)
        for max_dist in (float('inf'), 1.0):
            mdl = H.Hierarchical(cc_fun, {}, max_dist=max_dist, show_progress=False)
            guarded((tag, 'H-ccmatrix', max_dist), lambda: mdl.fit(series))
        trm = H.HierarchicalTree(dists_fun=cc_fun, dists_options={}, show_progress=False)
        guarded((tag, 'HT-ccmatrix'), lambda: (trm.fit(series), trm.linkage))
        ltm = H.LinkageTree(lambda seqs, **kw: cc_fun(seqs.series if hasattr(seqs, 'series') else seqs, **kw), {})
        guarded((tag, 'LT-ccmatrix'), lambda: ltm.fit(series))
    guarded((tag, 'DM-fast'), lambda: dtw.distance_matrix_fast(series, parallel=False, compact=True, **dopts))


def synthetic_matrix_cases(rng, case):
    """Hierarchical on hand-made distance matrices: ties, zero rows, infinite entries."""
    n = rng.randint(2, 9)
    mode = rng.choice(['ties', 'inf', 'float', 'allinf', 'zeros'])
    m = np.full((n, n), np.inf)
    for r in range(n):
        for c in range(r + 1, n):
            if mode == 'ties':
                m[r, c] = float(rng.randint(0, 3))
            elif mode == 'inf':
                m[r, c] = np.inf if rng.random() < 0.4 else float(rng.randint(1, 4)) / 2
            elif mode == 'float':
                m[r, c] = rng.random() * 5
            elif mode == 'zeros':
                m[r, c] = 0.0
    series = [np.zeros(rng.randint(1, 5)) for _ in range(n)]

    def dists_fun(seqs, only_triu=False, **kwargs):
        return m.copy()

    tag = ('syn', case, mode)
    for max_dist in (float('inf'), 0.0, 1.0, 2.5):
        for hookmode in ('none', 'log', 'weight', 'order', 'both'):
            log = HookLog()
            kwargs = dict(dists_fun=dists_fun, dists_options={}, max_dist=max_dist, show_progress=False)
            weights = [rng.randint(1, 3) for _ in range(n)]
            if hookmode == 'log':
                kwargs['merge_hook'] = log
            if hookmode in ('weight', 'both'):
                kwargs['merge_hook'] = H.Hooks.create_weighthook(weights, series)
            if hookmode in ('order', 'both'):
                kwargs['order_hook'] = H.Hooks.create_orderhook(weights)
            model = H.Hierarchical(**kwargs)
            for rep in range(2):
                guarded((tag, max_dist, hookmode, 'fit', rep), lambda: model.fit(series))
                record((tag, max_dist, hookmode, 'st', rep), (list(log.calls), weights))
    for hookmode in ('none', 'log', 'order'):
        log = HookLog()
        kwargs = dict(dists_fun=dists_fun, dists_options={}, show_progress=False)
        if hookmode == 'log':
            kwargs['merge_hook'] = log
        if hookmode == 'order':
            kwargs['order_hook'] = H.Hooks.create_orderhook([rng.randint(1, 3) for _ in range(n)])
        tree = H.HierarchicalTree(**kwargs)
        for rep in range(2):
            guarded((tag, 'tree', hookmode, rep), lambda: tree.fit(series))
            record((tag, 'tree-linkage', hookmode, rep), (tree.linkage, list(log.calls)))
    # LinkageTree on a symmetric finite matrix
    if mode in ('ties', 'float', 'zeros'):
        full = np.triu(np.where(np.isinf(m), 0, m), 1)
        full = full + full.T

        def full_fun(seqs, **kwargs):
            return full.copy()
        for method in ('complete', 'single'):
            lt = H.LinkageTree(full_fun, {}, method=method)
            guarded((tag, 'lt', method), lambda: lt.fit(series))


def main():
    rng = random.Random(20150915)
    case = 0
    for n in (2, 3, 4, 5, 7, 10):
        for kind in ('float', 'grid', 'dups'):
            for equal_length in (True, False):
                series = make_series(rng, n, equal_length, kind)
                opt_sets = dist_option_sets(rng)
                for use_c in (False, True):
                    dopts = opt_sets[case % len(opt_sets)]
                    tag = ('case', case, n, kind, equal_length, use_c, sorted(dopts.items()))
                    for max_dist in pick_max_dist(rng, series, use_c):
                        hookmode = rng.choice(['none', 'log', 'weight', 'order', 'both'])
                        run_hierarchical(rng, (tag, 'md', max_dist, hookmode), series, use_c, dopts, max_dist,
                                         hookmode)
                    for hookmode in ('none', 'log', 'weight', 'order', 'both'):
                        run_hierarchical(rng, (tag, 'hm', hookmode), series, use_c, {}, float('inf'), hookmode,
                                         show_progress=(case % 7 == 0))
                    for hookmode in ('none', 'log', 'order'):
                        run_tree(rng, (tag, 'tree', hookmode), series, use_c, {} if hookmode != 'none' else dopts,
                                 hookmode, rng.choice([float('inf'), 1.0]))
                    run_linkage(rng, tag, series, use_c, {} if case % 2 else dopts)
                    case += 1
                run_distmat(rng, ('dm', case, n, kind, equal_length), series, opt_sets[case % len(opt_sets)])
    for k in range(60):
        synthetic_matrix_cases(rng, k)
    digest = hashlib.sha256(repr(RESULTS).encode('utf-8')).hexdigest()
    sys.stderr.write('results: {}  exceptions: {}\n'.format(
        len(RESULTS), sum(1 for _, v in RESULTS if isinstance(v, list) and v[:1] == ['EXC'])))
    print('DIGEST ' + digest)
    return 0


if __name__ == '__main__':
    sys.exit(main())
