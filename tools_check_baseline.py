import json, sys, xml.etree.ElementTree as ET
base = json.load(open('/root/.vp/BASELINE.json'))
t = ET.parse(sys.argv[1]).getroot()
passed = set()
for tc in t.iter('testcase'):
    name = tc.get('classname') + '::' + tc.get('name')
    if not any(ch.tag in ('failure', 'error', 'skipped') for ch in tc):
        passed.add(name)
missing = [x for x in base['stable_pass'] if x not in passed]
print('stable_pass', len(base['stable_pass']), 'passed now', len(passed), 'missing', missing)
