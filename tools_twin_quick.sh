#!/bin/bash
# usage: tools_twin_quick.sh <refactoring dir with patch.diff>  -- behaviour-preserving change: every check must stay at exit 0
d=$1
t=$(mktemp -d /tmp/tw_XXXX)
mkdir -p $t/src && cp -r /repo/src/. $t/src/ && find $t -name "*.so" -delete
(cd $t && git init -q . 2>/dev/null; git apply --unsafe-paths -p1 --directory=. $d/patch.diff 2>&1 | head -3)
for p in $(seq -f "C%02g" 1 20); do
  ( VERIF_REPO=$t VERIF_NO_EVIDENCE=1 /venv/bin/python -m sa.check $p > $t/$p.log 2>&1; echo "rc=$?" >> $t/$p.log ) &
done; wait
al=""
for p in $(seq -f "C%02g" 1 20); do
  rc=$(tail -n 1 $t/$p.log)
  if [ "$rc" != "rc=0" ] || grep -q "STALE-FINDING" $t/$p.log; then al="$al $p($rc)"; grep "^  src\|ANALYSIS-ERROR\|STALE-FINDING\|Error" $t/$p.log | head -3 | cut -c1-330; fi
done
echo "== $(basename $(dirname $d))/$(basename $d) ALARMS:$al"
rm -rf $t
